"""C04 - obstacle occupancy is the shape placed at the state, for every time step.  E2-grid.

Exact states: expected region computed by plain trigonometry R(theta) v + p from the spec.  Uncertain states: enclosure decided
on a finite candidate set that is exact for containment in a rectangle (support function: extreme positions of the region, and
for every shape vertex the interval end points plus the stationary orientation).  Scenario-level queries are compared with what
the per-obstacle answers imply.  Every obstacle is built fresh from its spec for every evaluation.
"""
import contextlib
import itertools
import math

from mc.core import Result
from mc import snap, spec

PROPERTY = "C04"
RULE = ("full product obstacle role x shape x state class x initial time step x trajectory length x pose letters x every integer t "
        "around the horizon (exact); region kind x orientation half-width x shape x role (uncertain); all sets of <=3 obstacles of "
        "distinct roles x t x role/type filters x position boxes (scenario level). non-trivial: t inside or adjacent to the horizon; "
        "distinct by construction")
ASSUMPTIONS = ["obstacle shapes are given in the obstacle frame; 'placed at the state' = R(theta) v + p (rotation about the frame origin)",
               "shape groups with uncertain states are not generated (occupancy_shape_from_state raises by design)",
               "obstacles_by_position_intervals is decided for occupancies whose shape has a centre equal to the state position "
               "(rectangle, circle); other shapes are guarded",
               "tolerance 1e-9"]

TOL = 1e-9
SHAPES = {"rect": ["rect", 4.0, 2.0, 0.0, 0.0, 0.0], "circle": ["circle", 1.5, 0.0, 0.0],
          "poly": ["poly", [[-2.0, -1.0], [2.0, -1.0], [3.0, 0.0], [2.0, 1.0], [-2.0, 1.0], [-3.0, 0.0]]],
          "group-concentric": ["group", [["rect", 4.0, 2.0, 0.0, 0.0, 0.0], ["circle", 1.2, 0.0, 0.0]]],
          "group-offcentre": ["group", [["rect", 2.0, 1.0, 1.5, 0.0, 0.0], ["circle", 0.5, -1.5, 0.0]]]}
POSES = [(3.0, -2.0, 0.0), (1.5, 4.0, math.pi / 2), (-7.0, 0.5, 2.5), (0.0, 0.0, -3.0), (2.0, 2.0, 6.0), (10.0, -1.0, -math.pi / 2), (5.0, 5.0, 0.3), (1.0, 1.0, -6.0)]
TRAJ_CLASSES = ["KSState", "STState", "MBState", "ExtendedPMState", "PMState", "CustomState", "CustomPM"]


def shape_points(sp):
    """(kind, parameters) in the obstacle frame"""
    return sp


def place(sp, x, y, th):
    """expected snapshot (snap.shape format) of shape spec placed at pose"""
    c, s = math.cos(th), math.sin(th)

    def pt(px, py):
        return ("P", c * px - s * py + x, s * px + c * py + y)
    k = sp[0]
    if k == "rect":
        return {"k": "rect", "l": ("R", sp[1]), "w": ("R", sp[2]), "c": pt(sp[3], sp[4]), "o": ("O", sp[5] + th)}
    if k == "circle":
        return {"k": "circle", "r": ("R", sp[1]), "c": pt(sp[2], sp[3])}
    if k == "poly":
        return {"k": "poly", "v": [pt(px, py) for px, py in sp[1]]}
    if k == "group":
        return {"k": "group", "s": [place(m, x, y, th) for m in sp[1]]}
    raise KeyError(k)


def shape_diff(exp, got, path=""):
    """compare placed shapes; polygons as cyclic vertex sequences (either orientation)"""
    if exp is None or got is None:
        if exp is not got:
            yield (path, "none-mismatch", f"expected {exp} got {got}")
        return
    if exp["k"] != got.get("k"):
        yield (path, "shape-kind", f"expected {exp['k']} got {got.get('k')}")
        return
    if exp["k"] == "poly":
        ev = [p[1:3] for p in exp["v"]]
        gv = [p[1:3] for p in got["v"]]
        if len(ev) != len(gv):
            yield (path + ".v", "vertex-count", f"{len(ev)} vs {len(gv)}")
            return
        n = len(ev)
        ok = False
        for seq in (gv, gv[::-1]):
            for r in range(n):
                if all(abs(ev[i][0] - seq[(i + r) % n][0]) <= TOL * 10 and abs(ev[i][1] - seq[(i + r) % n][1]) <= TOL * 10 for i in range(n)):
                    ok = True
        if not ok:
            yield (path + ".v", "wrong-region", f"expected {ev} got {gv}")
        return
    if exp["k"] == "group":
        if len(exp["s"]) != len(got["s"]):
            yield (path, "member-count", "")
            return
        for i, (a, b) in enumerate(zip(exp["s"], got["s"])):
            yield from shape_diff(a, b, f"{path}.s[{i}]")
        return
    for p, kind, detail in snap.diff(exp, got, tol_point=TOL, tol_real=0.0, angle_mod=True, tol_angle=TOL):
        yield (path + p, "wrong-region", detail)


# ------------------------------------------------------------------------------ exact obstacles

def traj_state(cls, t, x, y, th, speed=3.0):
    vx, vy = speed * math.cos(th), speed * math.sin(th)
    if cls == "PMState":
        return {"cls": "PMState", "attrs": {"time_step": t, "position": [x, y], "velocity": vx, "velocity_y": vy}}
    if cls == "CustomPM":
        return {"cls": "CustomState", "attrs": {"time_step": t, "position": [x, y], "velocity": vx, "velocity_y": vy}}
    if cls == "CustomState":
        return {"cls": "CustomState", "attrs": {"time_step": t, "position": [x, y], "orientation": th, "velocity": speed}}
    a = {"time_step": t, "position": [x, y], "orientation": th, "velocity": speed}
    if cls in ("KSState", "STState", "MBState"):
        a["steering_angle"] = 0.0
    if cls == "STState":
        a.update(yaw_rate=0.0, slip_angle=0.0)
    if cls == "MBState":
        a.update(yaw_rate=0.0, velocity_y=0.5)
    if cls == "ExtendedPMState":
        a["acceleration"] = 0.0
    return {"cls": cls, "attrs": a}


def heading_of(cls, th):
    """the orientation the statement prescribes for the state (PM: atan2(vy, vx) == th up to wrap)"""
    return th


def obstacle_spec(role, shape_name, cls, t0, n, pose_shift=0, gap=0):
    sh = SHAPES[shape_name]
    poses = [POSES[(pose_shift + i) % len(POSES)] for i in range(n + 1)]
    x, y, th = poses[0]
    if role == "environment":
        # global-frame shape
        gsh = {"rect": ["rect", 4.0, 2.0, x, y, th], "circle": ["circle", 1.5, x, y], "poly": ["poly", [[x - 2, y - 1], [x + 2, y - 1], [x + 2.5, y + 2], [x - 2, y + 1]]],
               "group-concentric": ["group", [["rect", 4.0, 2.0, x, y, 0.3], ["circle", 1.0, x, y]]],
               "group-offcentre": ["group", [["rect", 4.0, 2.0, x, y, 0.3], ["circle", 1.0, x + 5, y]]]}[shape_name]
        return {"role": "environment", "id": 60, "type": "BUILDING", "shape": gsh}, None
    if role in ("phantom", "dynamic-set"):
        occ = []
        for i in range(n):
            px, py, pth = poses[i + 1]
            tt = t0 + 1 + gap + i
            occ.append({"t": tt if i % 2 == 0 else ["iv", tt, tt], "shape": ["rect", 3.0 + i, 2.0, px, py, pth] if i % 2 == 0 else ["circle", 1.0 + i, px, py]})
        pred = {"k": "set", "t0": t0 + 1 + gap, "occ": occ}
        if role == "phantom":
            return {"role": "phantom", "id": 61, "prediction": pred}, None
        return ({"role": "dynamic", "id": 62, "type": "CAR", "shape": sh, "initial_state": spec.init_state(x=x, y=y, o=th, t=t0), "prediction": pred}, None)
    if role == "static":
        return {"role": "static", "id": 63, "type": "PARKED_VEHICLE", "shape": sh, "initial_state": spec.init_state(x=x, y=y, o=th, t=t0)}, None
    if role == "dynamic-none":
        return {"role": "dynamic", "id": 64, "type": "CAR", "shape": sh, "initial_state": spec.init_state(x=x, y=y, o=th, t=t0)}, None
    # dynamic + trajectory
    states = [traj_state(cls, t0 + 1 + gap + i, *poses[i + 1]) for i in range(n)]
    return ({"role": "dynamic", "id": 65, "type": "CAR", "shape": sh, "initial_state": spec.init_state(x=x, y=y, o=th, t=t0),
             "prediction": {"k": "trajectory", "t0": t0 + 1 + gap, "shape": sh, "states": states}}, None)


# occupancy time steps of set-based predictions given as true intervals (offsets from the prediction's first step): consecutive, with a gap,
# overlapping, nested, mixed with plain steps, and listed out of order
IV_LAYOUTS = {"consecutive": [(0, 1), (2, 4)], "gap": [(0, 1), (3, 4)], "overlap": [(0, 2), (1, 5)], "nested": [(0, 5), (1, 2)], "nested-late": [(1, 2), (0, 5)],
              "mixed": [0, (1, 3), 4], "unordered": [(3, 4), (0, 2)], "overlap-late-short": [(1, 3), (2, 6), (0, 0)]}


def obstacle_spec_iv(role, layout, t0, shift=0):
    x, y, th = POSES[shift % len(POSES)]
    occ = []
    for i, w in enumerate(IV_LAYOUTS[layout]):
        px, py, pth = POSES[(shift + 1 + i) % len(POSES)]
        tt = t0 + 1 + w if isinstance(w, int) else ["iv", t0 + 1 + w[0], t0 + 1 + w[1]]
        occ.append({"t": tt, "shape": ["rect", 3.0 + i, 2.0, px, py, pth] if i % 2 == 0 else ["circle", 1.0 + i, px, py]})
    pred = {"k": "set", "t0": t0 + 1, "occ": occ}
    if role == "phantom":
        return {"role": "phantom", "id": 61, "prediction": pred}
    return {"role": "dynamic", "id": 62, "type": "CAR", "shape": SHAPES["rect"], "initial_state": spec.init_state(x=x, y=y, o=th, t=t0), "prediction": pred}


def expected_occupancies(osp, t):
    """all stored occupancies of a set-based prediction whose time step (interval) contains t"""
    return [place(o["shape"], 0.0, 0.0, 0.0) for o in osp["prediction"]["occ"]
            if (isinstance(o["t"], list) and o["t"][1] <= t <= o["t"][2]) or o["t"] == t]


def expected_occupancy(osp, t):
    """snapshot of the expected region at t, or None"""
    role = osp["role"]
    if role == "environment":
        return place(osp["shape"], 0.0, 0.0, 0.0)
    if role == "phantom" or (role == "dynamic" and osp.get("prediction") and osp["prediction"]["k"] == "set"):
        if role == "dynamic":
            a = osp["initial_state"]["attrs"]
            if t == a["time_step"]:
                return place(osp["shape"], a["position"][0], a["position"][1], a["orientation"])
            if t < a["time_step"]:
                return None
        for o in osp["prediction"]["occ"]:
            tt = o["t"]
            if (isinstance(tt, list) and tt[1] <= t <= tt[2]) or tt == t:
                return place(o["shape"], 0.0, 0.0, 0.0)
        return None
    a = osp["initial_state"]["attrs"]
    if role == "static":
        return place(osp["shape"], a["position"][0], a["position"][1], a["orientation"])
    if t == a["time_step"]:
        return place(osp["shape"], a["position"][0], a["position"][1], a["orientation"])
    pred = osp.get("prediction")
    if pred is None or t < a["time_step"]:
        return None
    i = t - pred["t0"]
    if 0 <= i < len(pred["states"]):
        sa = pred["states"][i]["attrs"]
        th = sa["orientation"] if "orientation" in sa else math.atan2(sa["velocity_y"], sa["velocity"])
        return place(osp["shape"], sa["position"][0], sa["position"][1], th)
    return None


def expected_state_time(osp, t):
    """time step of the state that must be returned for t (dynamic obstacles), or None"""
    a = osp["initial_state"]["attrs"]
    if t == a["time_step"]:
        return t
    pred = osp.get("prediction")
    if pred is None or pred["k"] != "trajectory" or t < a["time_step"]:
        return None
    i = t - pred["t0"]
    return t if 0 <= i < len(pred["states"]) else None


def horizon(osp):
    if osp["role"] in ("environment",):
        return 0, 3
    def last(p):
        return max(o["t"][2] if isinstance(o["t"], list) else o["t"] for o in p["occ"])
    if osp["role"] == "phantom":
        p = osp["prediction"]
        return p["t0"], last(p)
    t0 = osp["initial_state"]["attrs"]["time_step"]
    p = osp.get("prediction")
    if not p:
        return t0, t0
    return t0, (p["t0"] + len(p["states"]) - 1) if p["k"] == "trajectory" else last(p)


def check_exact(osp, tag, res):
    lo, hi = horizon(osp)
    role = osp["role"]
    for t in range(max(0, lo - 2), hi + 3):
        case = {"k": "exact", "obstacle": osp, "t": t, "tag": tag}
        res.evals += 1; res.transitions += 1
        if lo - 1 <= t <= hi + 1:
            res.nontrivial += 1
        where = "before" if t < lo else ("begin" if t == lo else ("end" if t == hi else ("after" if t > hi else "inside")))
        try:
            o = spec.mk_obstacle(osp)
            occ = o.occupancy_at_time(t)
        except Exception as e:
            res.violation(f"C04|{tag}|occupancy_at_time@{where}|raises:{type(e).__name__}", f"t={t}: {e!r}", case)
            continue
        exp = expected_occupancy(osp, t)
        got = None if occ is None else snap.shape(occ.shape)
        if got is not None and exp is not None and osp.get("prediction") and osp["prediction"]["k"] == "set" and not \
                (role == "dynamic" and t == osp["initial_state"]["attrs"]["time_step"]):
            # several stored occupancies may cover t (overlapping time intervals): any of them is "the stored occupancy"
            cands = expected_occupancies(osp, t)
            if len(cands) > 1:
                exp = next((c for c in cands if not list(shape_diff(c, got))), exp)
        if exp is not None and got is not None and "group-offcentre" in tag and role != "environment":
            # the statement does not fix the rotation centre of off-centre members of a shape group (the library rotates
            # every member about its own centre): existence and time pairing are decided, the placed region is not
            res.guarded += 1
            exp = got
        if (exp is None) != (got is None):
            res.violation(f"C04|{tag}|@{where}|{'not-None' if exp is None else 'missing-occupancy'}", f"t={t}: expected {exp} got {got}", case)
        elif exp is not None:
            for path, kind, detail in shape_diff(exp, got):
                res.violation(f"C04|{tag}|@{where}|{kind}", f"t={t} {path}: {detail}", case)
                break
            ot = occ.time_step
            from commonroad.common.util import Interval
            if not ((isinstance(ot, Interval) and ot.contains(t)) or ot == t):
                res.violation(f"C04|{tag}|@{where}|occupancy-time-step", f"t={t}: occupancy.time_step={ot}", case)
        if role == "dynamic":
            try:
                st = spec.mk_obstacle(osp).state_at_time(t)
            except Exception as e:
                res.violation(f"C04|{tag}|state_at_time@{where}|raises:{type(e).__name__}", f"t={t}: {e!r}", case)
                continue
            et = expected_state_time(osp, t)
            if (et is None) != (st is None):
                res.violation(f"C04|{tag}|state_at_time@{where}|{'not-None' if et is None else 'missing-state'}", f"t={t}: got {st}", case)
            elif st is not None and st.time_step != t:
                res.violation(f"C04|{tag}|state_at_time@{where}|wrong-pairing", f"t={t}: returned state has time step {st.time_step}", case)
        res.outcomes[f"occ@{where}:{'None' if exp is None else 'region'}"] += 1


# ------------------------------------------------------------------------------ obstacles reached through public mutators

def check_mutated(shape_name, cls, shift, res):
    """dynamic obstacle + trajectory, queried (caches filled), then changed through a public mutator; every t is then
    checked against the spec of the obstacle it has become"""
    import copy
    base, _ = obstacle_spec("dynamic-traj", shape_name, cls, 0, 2, shift, 0)
    x, y, th = POSES[(shift + 5) % len(POSES)]
    for mut in ("update_initial_state", "initial_state=", "update_prediction", "prediction=None", "trajectory.append_state"):
        tag = f"dynamic-traj|{shape_name}|{cls}|after:{mut}"
        o = spec.mk_obstacle(base)
        for t in range(0, 5):
            o.occupancy_at_time(t); o.state_at_time(t)
        now = copy.deepcopy(base)
        try:
            if mut == "update_initial_state":
                now["initial_state"] = spec.init_state(x=x, y=y, o=th, t=2)
                now["prediction"] = None
                o.update_initial_state(spec.mk_state(now["initial_state"]))
            elif mut == "initial_state=":
                now["initial_state"] = spec.init_state(x=x, y=y, o=th, t=0)
                o.initial_state = spec.mk_state(now["initial_state"])
            elif mut == "update_prediction":
                now["prediction"] = {"k": "trajectory", "t0": 2, "shape": SHAPES[shape_name], "states": [traj_state(cls, 2, x, y, th), traj_state(cls, 3, y, x, -th)]}
                o.update_prediction(spec.mk_prediction(now["prediction"]))
            elif mut == "trajectory.append_state":
                # the trajectory of the prediction is extended by one state through its public method
                t_next = now["prediction"]["t0"] + len(now["prediction"]["states"])
                nst = traj_state(cls, t_next, x, y, th)
                now["prediction"]["states"] = list(now["prediction"]["states"]) + [nst]
                o.prediction.trajectory.append_state(spec.mk_state(nst))
            else:
                now["prediction"] = None
                o.prediction = None
        except Exception as e:
            res.violation(f"C04|{tag}|raises:{type(e).__name__}", repr(e), {"k": "mutated", "shape": shape_name, "cls": cls, "shift": shift})
            continue
        for t in range(0, 6):
            case = {"k": "mutated", "shape": shape_name, "cls": cls, "shift": shift, "mut": mut, "t": t}
            res.evals += 1; res.transitions += 1; res.nontrivial += 1
            try:
                occ = o.occupancy_at_time(t)
                st = o.state_at_time(t)
            except Exception as e:
                res.violation(f"C04|{tag}|query-raises:{type(e).__name__}", f"t={t}: {e!r}", case)
                continue
            exp = expected_occupancy(now, t)
            got = None if occ is None else snap.shape(occ.shape)
            if (exp is None) != (got is None):
                res.violation(f"C04|{tag}|{'not-None' if exp is None else 'missing-occupancy'}", f"t={t}: expected {exp} got {got}", case)
            elif exp is not None and "offcentre" not in shape_name:
                for path, kind, detail in shape_diff(exp, got):
                    res.violation(f"C04|{tag}|{kind}", f"t={t} {path}: {detail}", case)
                    break
            et = expected_state_time(now, t)
            if (et is None) != (st is None) or (st is not None and st.time_step != t):
                res.violation(f"C04|{tag}|state-pairing", f"t={t}: state {None if st is None else st.time_step}", case)
            res.outcomes[f"mutated:{mut}"] += 1


# ------------------------------------------------------------------------------ obstacles that were used or moved before the query

# shapes whose reference point is not the origin of the obstacle frame (a vehicle referenced at its rear axle, a trailer, ...); the statement
# does not fix the pivot for these, so they are only used with the differential oracle below
OFF_SHAPES = {"rect-offcentre": ["rect", 4.0, 2.0, 1.25, 0.0, 0.0], "rect-offcentre-rotated": ["rect", 3.0, 1.0, -0.5, 0.75, 0.4], "circle-offcentre": ["circle", 1.0, 0.5, -0.25],
              "poly-offcentre": ["poly", [[0.0, -1.0], [4.0, -1.0], [5.0, 0.0], [4.0, 1.0], [0.0, 1.0]]]}
MOVES = [((0.0, 0.0), 0.0), ((3.0, -1.5), 0.0), ((0.0, 0.0), 0.7), ((2.0, 1.0), -2.5), ((0.0, 5.0), math.pi / 2), ((-4.0, 0.0), 1e-3)]
USES = ["none", "touch-shape-caches", "query-all-times", "touch+query", "twin-with-copied-trajectory"]


def _move_state(st, tr, a):
    st = {"cls": st["cls"], "attrs": dict(st["attrs"])}
    x, y = st["attrs"]["position"]
    c, s_ = math.cos(a), math.sin(a)
    st["attrs"]["position"] = [c * (x + tr[0]) - s_ * (y + tr[1]), s_ * (x + tr[0]) + c * (y + tr[1])]
    th = st["attrs"]["orientation"] + a
    while th > 2 * math.pi:          # the same angle inside the admissible range [-2pi, 2pi]
        th -= 2 * math.pi
    while th < -2 * math.pi:
        th += 2 * math.pi
    st["attrs"]["orientation"] = th
    return st


def check_reached(role, shape_name, res):
    """differential oracle (independent of the pivot convention): an obstacle that was inspected and / or moved by translate_rotate answers every
    occupancy query like an obstacle freshly constructed from the (independently transformed) spec"""
    import numpy as np
    sh = dict(SHAPES, **OFF_SHAPES)[shape_name]
    snap.RECT_VERTICES = True
    try:
        for shift in (0, 2):
            base, _ = obstacle_spec("static" if role == "static" else "dynamic-traj", "rect", "KSState", 0, 3, shift, 0)
            base["shape"] = sh
            if base.get("prediction"):
                base["prediction"]["shape"] = sh
            for use in USES:
                for mi, (tr, a) in enumerate(MOVES):
                    case = {"k": "reached", "role": role, "shape": shape_name, "shift": shift, "use": use, "move": mi}
                    tag = f"{role}|{shape_name}|use:{use}|move:{'none' if mi == 0 else ('translation' if a == 0 else 'rotation')}"
                    res.evals += 1; res.transitions += 1; res.nontrivial += 1; res.states += 1
                    now = {k: v for k, v in base.items()}
                    now["initial_state"] = _move_state(base["initial_state"], tr, a)
                    if base.get("prediction"):
                        now["prediction"] = dict(base["prediction"], states=[_move_state(x, tr, a) for x in base["prediction"]["states"]])
                    try:
                        o = spec.mk_obstacle(base)
                        if "touch" in use:
                            for shp in [o.obstacle_shape] + ([o.prediction.shape] if getattr(o, "prediction", None) is not None else []):
                                for m in (getattr(shp, "shapes", None) or [shp]):
                                    getattr(m, "vertices", None); m.shapely_object; m.contains_point(np.array([0.3, 0.2]))
                        if "query" in use:
                            for t in range(0, 6):
                                o.occupancy_at_time(t)
                        twin = None
                        if use.startswith("twin") and getattr(o, "prediction", None) is not None:
                            # a second obstacle whose trajectory is a shallow copy of this one's; both are queried, then only one is moved
                            import copy as _copy
                            from commonroad.prediction.prediction import TrajectoryPrediction
                            from commonroad.scenario.obstacle import DynamicObstacle
                            twin = DynamicObstacle(99, o.obstacle_type, spec.mk_shape(sh), spec.mk_state(base["initial_state"]),
                                                   TrajectoryPrediction(_copy.copy(o.prediction.trajectory), spec.mk_shape(sh)))
                            for t in range(0, 6):
                                o.occupancy_at_time(t); o.state_at_time(t); twin.occupancy_at_time(t); twin.state_at_time(t)
                        if mi:
                            o.translate_rotate(np.array(tr), a)
                        fresh = spec.mk_obstacle(now)
                        if twin is not None:
                            still = spec.mk_obstacle(base)
                            for who, live_, ref_ in (("moved", o, fresh), ("twin", twin, still)):
                                for t in range(0, 6):
                                    ls, rs = live_.state_at_time(t), ref_.state_at_time(t)
                                    if (ls is None) != (rs is None) or (ls is not None and (abs(float(ls.position[0]) - float(rs.position[0])) > 1e-9 or abs(float(ls.position[1]) - float(rs.position[1])) > 1e-9)):
                                        res.violation(f"C04|{tag}|{who}:state_at_time-differs-from-freshly-built-obstacle",
                                                      f"{case} t={t}: {None if ls is None else list(ls.position)} vs {None if rs is None else list(rs.position)}", dict(case, t=t))
                                        break
                            g2 = [None if twin.occupancy_at_time(t) is None else snap.shape(twin.occupancy_at_time(t).shape) for t in range(0, 6)]
                            e2 = [None if still.occupancy_at_time(t) is None else snap.shape(still.occupancy_at_time(t).shape) for t in range(0, 6)]
                            d2 = next(iter(snap.diff(e2, g2, tol_point=TOL, tol_real=TOL, angle_mod=True, tol_angle=TOL)), None)
                            if d2:
                                res.violation(f"C04|{tag}|twin:differs-from-freshly-built-obstacle", f"{case}: {d2}", case)
                        for t in range(0, 6):
                            g, e = o.occupancy_at_time(t), fresh.occupancy_at_time(t)
                            gs, es = (None if g is None else snap.shape(g.shape)), (None if e is None else snap.shape(e.shape))
                            d = None if (gs is None and es is None) else ("none-mismatch" if (gs is None) != (es is None) else
                                                                         next(iter(snap.diff(es, gs, tol_point=TOL, tol_real=TOL, angle_mod=True, tol_angle=TOL)), None))
                            if d:
                                res.violation(f"C04|{tag}|differs-from-freshly-built-obstacle", f"{case} t={t}: {d}", dict(case, t=t))
                                break
                    except Exception as e:
                        res.violation(f"C04|{tag}|raises:{type(e).__name__}", f"{case}: {e!r}", case)
                    res.outcomes[f"reached:{use}"] += 1
    finally:
        snap.RECT_VERTICES = False


# ------------------------------------------------------------------------------ uncertain states

REGIONS = {"rect": ["rect", 2.0, 1.0, 5.0, 3.0, 0.0], "rect-rotated": ["rect", 2.0, 1.0, 5.0, 3.0, 0.6], "circle": ["circle", 0.8, 5.0, 3.0],
           "poly-asym": ["poly", [[4.0, 2.0], [7.0, 2.0], [7.0, 2.5], [4.5, 2.5], [4.5, 5.0], [4.0, 5.0]]],
           "poly-sym": ["poly", [[4.0, 2.5], [6.0, 2.5], [6.0, 3.5], [4.0, 3.5]]], "exact": None}
HALF_WIDTHS = [0.0, 0.05, 0.4, 1.2]
REF_ORI = [0.0, 0.7, -2.0, math.pi / 2]


def region_vertices(reg, n_dir):
    """extreme points of the position region in the given unit directions (list of (nx, ny))"""
    if reg[0] == "rect":
        l, w, cx, cy, o = reg[1:]
        c, s = math.cos(o), math.sin(o)
        return [(cx + c * dx - s * dy, cy + s * dx + c * dy) for dx, dy in ((l / 2, w / 2), (l / 2, -w / 2), (-l / 2, w / 2), (-l / 2, -w / 2))]
    if reg[0] == "poly":
        return [tuple(v) for v in reg[1]]
    if reg[0] == "circle":
        r, cx, cy = reg[1:]
        return [(cx + r * nx, cy + r * ny) for nx, ny in n_dir]
    raise KeyError


def shape_support(sp, ang_lo, ang_hi, n):
    """max over orientation psi in [ang_lo, ang_hi] and shape points v of n . R(psi) v  (exact on a finite candidate set)"""
    na = math.atan2(n[1], n[0])
    if sp[0] == "circle":
        return sp[1]
    verts = [(sp[1] / 2, sp[2] / 2), (sp[1] / 2, -sp[2] / 2), (-sp[1] / 2, sp[2] / 2), (-sp[1] / 2, -sp[2] / 2)] if sp[0] == "rect" else [tuple(v) for v in sp[1]]
    best = -1e18
    for vx, vy in verts:
        r = math.hypot(vx, vy)
        phi = math.atan2(vy, vx)
        cands = [ang_lo, ang_hi]
        # stationary point: psi + phi == na (mod 2pi)
        star = na - phi
        for k in range(-3, 4):
            c = star + 2 * math.pi * k
            if ang_lo <= c <= ang_hi:
                cands.append(c)
        for psi in cands:
            best = max(best, r * math.cos(psi + phi - na))
    return best


def check_uncertain(role, shape_name, reg_name, half, ref, res):
    sh = SHAPES[shape_name]
    reg = REGIONS[reg_name]
    ori = ["aiv", ref - half, ref + half] if half > 0 else ref
    pos = reg if reg is not None else [5.0, 3.0]
    if reg is None and half == 0:
        return
    st = spec.init_state(t=0)
    st["attrs"]["position"] = pos
    st["attrs"]["orientation"] = ori
    tag = f"{role}|{shape_name}|uncertain-pos:{reg_name}|ori-halfwidth:{half}"
    case = {"k": "uncertain", "role": role, "shape": shape_name, "region": reg_name, "half": half, "ref": ref}
    if role == "static":
        osp = {"role": "static", "id": 70, "type": "PARKED_VEHICLE", "shape": sh, "initial_state": st}
        t = 0
    else:
        ts = {"cls": "KSState", "attrs": {"time_step": 1, "position": pos, "orientation": ori, "velocity": 1.0, "steering_angle": 0.0}}
        osp = {"role": "dynamic", "id": 71, "type": "CAR", "shape": sh, "initial_state": spec.init_state(x=0.0, y=0.0, t=0),
               "prediction": {"k": "trajectory", "t0": 1, "shape": sh, "states": [ts]}}
        t = 1
    res.evals += 1; res.transitions += 1; res.nontrivial += 1
    try:
        occ = spec.mk_obstacle(osp).occupancy_at_time(t)
    except Exception as e:
        res.violation(f"C04|{role}|{shape_name}|uncertain-pos:{reg_name}|ori:{'interval' if half else 'exact'}|raises:{type(e).__name__}", repr(e), case)
        return
    if occ is None:
        res.violation(f"C04|{tag}|missing-occupancy", "", case)
        return
    from commonroad.geometry.shape import Rectangle
    R = occ.shape
    if not isinstance(R, Rectangle):
        res.outcomes["uncertain-region-not-rectangle(info)"] += 1
        return
    L, W, C, psi = float(R.length), float(R.width), (float(R.center[0]), float(R.center[1])), float(R.orientation)
    worst = 0.0
    for (nx, ny), half_ext in (((math.cos(psi), math.sin(psi)), L / 2), ((-math.cos(psi), -math.sin(psi)), L / 2),
                               ((-math.sin(psi), math.cos(psi)), W / 2), ((math.sin(psi), -math.cos(psi)), W / 2)):
        if reg is None:
            pos_sup = nx * 5.0 + ny * 3.0
        else:
            pos_sup = max(nx * px + ny * py for px, py in region_vertices(reg, [(nx, ny)]))
        need = pos_sup + shape_support(sh, ref - half, ref + half, (nx, ny))
        have = nx * C[0] + ny * C[1] + half_ext
        worst = max(worst, need - have)
    if worst > 1e-9:
        res.violation(f"C04|{role}|{shape_name}|uncertain-pos:{reg_name}|ori:{'interval' if half else 'exact'}|under-approx",
                      f"{case}: the shape sticks out of the occupancy by {worst:.4f} (returned Rectangle l={L} w={W} c={C} o={psi})", case)
    res.outcomes["enclosure-ok" if worst <= 1e-9 else "enclosure-violated"] += 1


# ------------------------------------------------------------------------------ scenario level

def scenario_specs():
    """obstacle specs of distinct roles for the scenario-level product"""
    pool = []
    pool.append(obstacle_spec("static", "rect", None, 0, 0, 0)[0])
    pool.append(obstacle_spec("dynamic-traj", "rect", "KSState", 0, 2, 1)[0])
    pool.append(obstacle_spec("dynamic-traj", "circle", "PMState", 2, 2, 3)[0]); pool[-1]["id"] = 66; pool[-1]["type"] = "BICYCLE"
    pool.append(obstacle_spec("dynamic-set", "rect", None, 1, 2, 4)[0])
    pool.append(obstacle_spec("dynamic-none", "circle", None, 1, 0, 5)[0])
    pool.append(obstacle_spec("phantom", "rect", None, 0, 2, 6)[0])
    pool.append(obstacle_spec("environment", "rect", None, 0, 0, 7)[0])
    pool.append(obstacle_spec("static", "poly", None, 2, 0, 2)[0]); pool[-1]["id"] = 67; pool[-1]["type"] = "CONSTRUCTION_ZONE"
    return pool


def check_scenario(idx, res):
    from commonroad.scenario.scenario import Scenario, ScenarioID
    from commonroad.scenario.obstacle import ObstacleRole, ObstacleType
    from commonroad.common.util import Interval
    pool = scenario_specs()
    osps = [pool[i] for i in idx]
    case = {"k": "scenario", "idx": list(idx)}

    def fresh():
        sc = Scenario(0.1, ScenarioID())
        for o in osps:
            sc.add_objects(spec.mk_obstacle(o))
        return sc
    sc = fresh()
    obs = {o.obstacle_id: o for o in sc.obstacles}
    boxes = [((-100, 100), (-100, 100)), ((0, 4), (-3, 3)), ((1.5, 1.5), (4.0, 4.0)), ((-8, -6), (0, 1)), ((2.5, 10.5), (-2.5, 5.5)), ((50, 60), (50, 60))]
    for t in range(0, 7):
        # occupancies
        for role in [None] + list(ObstacleRole):
            res.evals += 1; res.transitions += 1; res.nontrivial += 1
            try:
                got = sorted(repr(snap.shape(o.shape)) for o in fresh().occupancies_at_time_step(t, role))
            except Exception as e:
                res.violation(f"C04|scenario-query:occupancies_at_time_step|raises:{type(e).__name__}", f"{case} t={t} role={role}: {e!r}", case)
                continue
            exp = sorted(repr(snap.shape(o.occupancy_at_time(t).shape)) for o in obs.values()
                         if (role is None or o.obstacle_role == role) and o.occupancy_at_time(t) is not None)
            if got != exp:
                res.violation(f"C04|scenario-query:occupancies_at_time_step|role:{'None' if role is None else role.name}",
                              f"{case} t={t}: got {len(got)} occupancies, per-obstacle answers imply {len(exp)}", case)
        # states
        res.evals += 1; res.transitions += 1
        try:
            got = {k: snap.state(v) for k, v in fresh().obstacle_states_at_time_step(t).items()}
            exp = {}
            for o in obs.values():
                rn = o.obstacle_role.name.upper()
                if rn == "STATIC":
                    exp[o.obstacle_id] = snap.state(o.initial_state)
                elif rn == "DYNAMIC" and o.state_at_time(t) is not None:
                    exp[o.obstacle_id] = snap.state(o.state_at_time(t))
            if got != exp:
                res.violation("C04|scenario-query:obstacle_states_at_time_step", f"{case} t={t}: ids {sorted(got)} vs {sorted(exp)}", case)
        except Exception as e:
            res.violation(f"C04|scenario-query:obstacle_states_at_time_step|raises:{type(e).__name__}", f"{case} t={t}: {e!r}", case)
        # position intervals
        for (bx, by) in boxes:
            for roles in ((ObstacleRole.DYNAMIC, ObstacleRole.STATIC), (ObstacleRole.DYNAMIC,), (ObstacleRole.STATIC,), (ObstacleRole.Phantom, ObstacleRole.ENVIRONMENT),
                          tuple(ObstacleRole)):
                res.evals += 1; res.transitions += 1
                try:
                    got = sorted(o.obstacle_id for o in fresh().obstacles_by_position_intervals([Interval(bx[0], bx[1]), Interval(by[0], by[1])], roles, t))
                except Exception as e:
                    res.violation(f"C04|scenario-query:obstacles_by_position_intervals|raises:{type(e).__name__}", f"{case} t={t}: {e!r}", case)
                    continue
                exp, undecided = [], False
                for o in obs.values():
                    if o.obstacle_role not in roles:
                        continue
                    rn = o.obstacle_role.name.upper()
                    if rn == "STATIC":
                        p = o.initial_state.position
                    else:
                        occ = o.occupancy_at_time(t)
                        if occ is None:
                            continue
                        k = snap.shape(occ.shape)["k"]
                        if k not in ("rect", "circle"):
                            undecided = True
                            continue
                        p = occ.shape.center
                    if bx[0] <= p[0] <= bx[1] and by[0] <= p[1] <= by[1]:
                        exp.append(o.obstacle_id)
                if undecided:
                    res.guarded += 1
                    got = [i for i in got if snap.shape(obs[i].occupancy_at_time(t).shape)["k"] in ("rect", "circle") or obs[i].obstacle_role.name.upper() == "STATIC"]
                else:
                    res.nontrivial += 1
                if got != sorted(exp):
                    res.violation("C04|scenario-query:obstacles_by_position_intervals|wrong-set", f"{case} t={t} box={bx, by} roles={[r.name for r in roles]}: got {got} expected {sorted(exp)}", case)
    # role/type filter
    for role in [None] + list(ObstacleRole):
        for typ in [None, ObstacleType.CAR, ObstacleType.BICYCLE, ObstacleType.PARKED_VEHICLE, ObstacleType.BUILDING, ObstacleType.TRUCK]:
            res.evals += 1; res.transitions += 1; res.nontrivial += 1
            try:
                got = sorted(o.obstacle_id for o in fresh().obstacles_by_role_and_type(role, typ))
            except Exception as e:
                res.violation(f"C04|scenario-query:obstacles_by_role_and_type|raises:{type(e).__name__}", f"{case} role={role} type={typ}: {e!r}", case)
                continue
            exp = sorted(o.obstacle_id for o in obs.values() if (role is None or o.obstacle_role == role) and (typ is None or getattr(o, "obstacle_type", None) == typ))
            if got != exp:
                res.violation("C04|scenario-query:obstacles_by_role_and_type|wrong-set", f"{case} role={role} type={typ}: got {got} expected {exp}", case)
    res.states += 1


# ------------------------------------------------------------------------------ units

def describe(tier):
    return {"shapes": list(SHAPES), "poses": POSES, "trajectory_state_classes": TRAJ_CLASSES, "initial_time_steps": [0, 3], "trajectory_lengths": [1, 2, 4],
            "uncertain_regions": list(REGIONS), "orientation_half_widths": HALF_WIDTHS, "reference_orientations": REF_ORI,
            "scenario_level": "all sets of 1..3 obstacles from an 8-obstacle pool" + ("" if tier == "quick" else " (thorough: also all 4-sets)"), "exhaustive": True}


def units(tier):
    u = []
    for role in ("static", "dynamic-none", "environment"):
        for sn in SHAPES:
            u.append({"k": "exact", "role": role, "shape": sn})
    for sn in SHAPES:
        for cls in TRAJ_CLASSES:
            u.append({"k": "exact", "role": "dynamic-traj", "shape": sn, "cls": cls})
    u.append({"k": "exact", "role": "dynamic-set", "shape": "rect"}); u.append({"k": "exact", "role": "phantom", "shape": "rect"})
    for role in ("dynamic-set", "phantom"):
        u.append({"k": "exact-iv", "role": role})
    for role in ("static", "dynamic"):
        for sn in list(SHAPES) + list(OFF_SHAPES):
            u.append({"k": "reached", "role": role, "shape": sn})
    for sn in ("rect", "circle", "poly"):
        u.append({"k": "mutated", "shape": sn})
    for role in ("static", "dynamic"):
        for sn in ("rect", "circle", "poly"):
            u.append({"k": "uncertain", "role": role, "shape": sn})
    n = len(scenario_specs())
    for r in (1, 2, 3) if tier == "quick" else (1, 2, 3, 4):
        for idx in itertools.combinations(range(n), r):
            u.append({"k": "scenario", "idx": list(idx)})
    return u


def run_unit(unit, tier):
    res = Result()
    k = unit["k"]
    if k == "exact":
        role, sn, cls = unit["role"], unit["shape"], unit.get("cls")
        tag = f"{role}|{sn}|{cls or '-'}|exact"
        for t0 in (0, 3):
            lengths = [1, 2, 4] if role in ("dynamic-traj", "dynamic-set", "phantom") else [0]
            for n in lengths:
                for shift in range(len(POSES)):
                    # gap -1: the prediction starts AT the obstacle's initial time step (and says something else there): the initial state decides
                    for gap in ((0, 1, -1) if role in ("dynamic-traj", "dynamic-set") else (0,)):
                        osp, _ = obstacle_spec(role, sn, cls, t0, n, shift, gap)
                        check_exact(osp, tag, res)
                        res.states += 1
        if role == "dynamic-traj" and cls not in ("PMState", "CustomPM"):      # (a point-mass state at rest has no heading)
            # standing and turning on the spot: consecutive states share the position, the later ones have velocity 0 and another heading
            for shift in range(len(POSES)):
                x, y, th = POSES[shift]
                x2, y2, th2 = POSES[(shift + 3) % len(POSES)]
                w = lambda a: a - 2 * math.pi if a > 2 * math.pi else (a + 2 * math.pi if a < -2 * math.pi else a)
                seq = [(x, y, th, 3.0), (x, y, w(th + 0.8), 0.0), (x, y, w(th - 1.1), 0.0), (x2, y2, th2, 3.0), (x2, y2, w(th2 + 0.5), 0.0)]
                osp = {"role": "dynamic", "id": 65, "type": "CAR", "shape": SHAPES[sn], "initial_state": spec.init_state(x=x - 1.0, y=y, o=th, t=0),
                       "prediction": {"k": "trajectory", "t0": 1, "shape": SHAPES[sn], "states": [traj_state(cls, 1 + i, px, py, pth, speed=v) for i, (px, py, pth, v) in enumerate(seq)]}}
                check_exact(osp, f"{role}|{sn}|{cls or '-'}|standing-turn", res)
                res.states += 1
        res.sample({"k": "exact", "role": role, "shape": sn, "cls": cls}, 1)
    elif k == "reached":
        check_reached(unit["role"], unit["shape"], res)
        res.sample(dict(unit, uses=USES, moves=MOVES), 1)
    elif k == "exact-iv":
        for layout in IV_LAYOUTS:
            for t0 in (0, 3):
                for shift in range(len(POSES)):
                    check_exact(obstacle_spec_iv(unit["role"], layout, t0, shift), f"{unit['role']}|interval-steps:{layout}|-|exact", res)
                    res.states += 1
                    if unit["role"] == "dynamic-set":
                        # the first occupancy interval also contains the obstacle's initial time step
                        osp = obstacle_spec_iv(unit["role"], layout, t0, shift)
                        osp["prediction"]["t0"] = t0
                        for o_ in osp["prediction"]["occ"]:
                            o_["t"] = (o_["t"] - 1) if not isinstance(o_["t"], list) else ["iv", o_["t"][1] - 1, o_["t"][2] - 1]
                        check_exact(osp, f"{unit['role']}|interval-steps:{layout}|-|covers-initial-step", res)
                        res.states += 1
        res.sample({"k": "exact-iv", "role": unit["role"], "layouts": sorted(IV_LAYOUTS)}, 1)
    elif k == "mutated":
        for cls in ("KSState", "PMState", "CustomState"):
            for shift in range(len(POSES)):
                check_mutated(unit["shape"], cls, shift, res)
                res.states += 1
        res.sample({"k": "mutated", "shape": unit["shape"]}, 1)
    elif k == "uncertain":
        for reg in REGIONS:
            for half in HALF_WIDTHS:
                for ref in REF_ORI:
                    check_uncertain(unit["role"], unit["shape"], reg, half, ref, res)
                    res.states += 1
        res.sample({"k": "uncertain", "role": unit["role"], "shape": unit["shape"]}, 1)
    else:
        check_scenario(unit["idx"], res)
        res.sample({"k": "scenario", "obstacles": unit["idx"]}, 1)
    return res


def replay(case):
    res = Result()
    if case["k"] == "exact":
        check_exact(case["obstacle"], case["tag"], res)
    elif case["k"] == "mutated":
        check_mutated(case["shape"], case["cls"], case["shift"], res)
    elif case["k"] == "reached":
        check_reached(case["role"], case["shape"], res)
    elif case["k"] == "uncertain":
        check_uncertain(case["role"], case["shape"], case["region"], case["half"], case["ref"], res)
    else:
        check_scenario(case["idx"], res)
    return [(s, d) for s, d, _ in res.violations]


def canaries():
    from commonroad.scenario import trajectory as tr, scenario as sc
    from commonroad.prediction import prediction as pr
    from commonroad.geometry import shape as shp

    @contextlib.contextmanager
    def le_in_state_at_time_step():
        o = tr.Trajectory.state_at_time_step

        def bad(self, time_step):
            if self._initial_time_step <= time_step <= self._initial_time_step + len(self._state_list):
                return self._state_list[min(time_step - self._initial_time_step, len(self._state_list) - 1)]
            return None
        tr.Trajectory.state_at_time_step = bad
        try:
            yield
        finally:
            tr.Trajectory.state_at_time_step = o

    @contextlib.contextmanager
    def atan2_swapped():
        import commonroad.scenario.state as st
        o = st.PMState.orientation
        st.PMState.orientation = property(lambda self: math.atan2(self.velocity, self.velocity_y))
        try:
            yield
        finally:
            st.PMState.orientation = o

    @contextlib.contextmanager
    def role_filter_neq():
        o = sc.Scenario.occupancies_at_time_step

        def bad(self, time_step, obstacle_role=None):
            return [ob.occupancy_at_time(time_step) for ob in self.obstacles
                    if (obstacle_role is None or ob.obstacle_role != obstacle_role) and ob.occupancy_at_time(time_step)]
        sc.Scenario.occupancies_at_time_step = bad
        try:
            yield
        finally:
            sc.Scenario.occupancies_at_time_step = o
    return [("Trajectory.state_at_time_step-<=", le_in_state_at_time_step), ("PMState-heading-atan2-swapped", atan2_swapped),
            ("occupancies_at_time_step-role-filter-!=", role_filter_neq)]
