"""C14 - solution files round-trip exactly and follow the solution schema.  E2-dev.

Base specs: one solution per trajectory kind (PM, ST, KS, KST, MB, Input, PMInput), 2 states.  Deviation menu: every
admissible model/type/cost, initial time step, number of states, every scalar slot of every state <- every letter of the
value alphabet, integer position arrays, computation time, processor name, date, a second planning problem of every
kind (both orders).  All specs within k deviations are dumped by the real writer and parsed by the real reader.
"""
import contextlib
import os
import re

from mc.core import Result
from mc import dev, solspec

PROPERTY = "C14"
RULE = ("all solution specs within k deviations (quick k<=1 plus k=2 on the metadata/shape sub-menu, thorough k<=2 everywhere) "
        "of 7 base solutions; a case is non-trivial when it differs from its base (>=1 deviation); distinct by construction "
        "(distinct deviation subsets)")
ASSUMPTIONS = ["finite state values only; planning-problem ids distinct within a solution (Solution stores them in a dict)",
               "schema validity is asserted only for solutions whose trajectory kinds the shipped schema defines and that are "
               "listed in the schema's sequence order; KST (absent from the schema) is round-trip checked only",
               "reals compared via float.hex of float(value): ints written as '3' must read back as 3.0"]

KINDS = ["PM", "ST", "KS", "KST", "MB", "Input", "PMInput"]
MODEL_OF_KIND = {"PM": "PM", "ST": "ST", "KS": "KS", "KST": "KST", "MB": "MB", "Input": "KS", "PMInput": "PM"}
LETTERS = [("f", 0.0), ("f", -0.0), ("f", 1.0), ("i", 3), ("f", 0.1 + 0.2), ("f", 1e-300), ("f", -1e300),
           ("f", 123456789.123456789), ("f", 5e-324), ("n", 0.1), ("n", -2.5e-7), ("i", -7), ("i", 0),
           ("f", 1e16), ("f", 1.7976931348623157e308), ("n", 1e-5)]
SCHEMA_ORDER = ["PMInput", "Input", "PM", "KS", "ST", "MB"]
_schema = None


def _xsd():
    global _schema
    if _schema is None:
        import os
        import commonroad
        from lxml import etree
        p = os.path.join(os.path.dirname(commonroad.__file__), "scenario_definition", "xml_definition_files",
                         "CommonRoadSolution_schema.xsd")
        _schema = etree.XMLSchema(etree.parse(p))
    return _schema


def base_spec(kind):
    return {"sid": {"country": "DEU", "map": "A9", "map_id": 2, "conf": 1, "beh": "T", "pred": 1},
            "pps": [{"id": 7, "model": MODEL_OF_KIND[kind], "vtype": 2, "cost": "JB1", "kind": kind, "t0": 0,
                     "states": [solspec.default_vec(kind, 0), solspec.default_vec(kind, 0.25)]}],
            "ct": None, "proc": None, "date": [2021, 3, 4, 5, 6, 7, 0]}


def menu_for(kind, tier, full_values=True):
    from commonroad.common.solution import SupportedCostFunctions, VehicleType
    m = []
    models = [mm for mm in ("PM", "ST", "KS", "KST", "MB") if kind in solspec.kinds_for_model(mm)]
    for mm in models:
        if mm != MODEL_OF_KIND[kind]:
            m.append(("model", f"model={mm}", lambda s, mm=mm: s["pps"][0].__setitem__("model", mm)))
    for vt in VehicleType:
        if vt.value != 2:
            m.append(("vtype", f"vtype={vt.value}", lambda s, v=vt.value: s["pps"][0].__setitem__("vtype", v)))
    costs = {c.name for mm in models for c in SupportedCostFunctions[mm].value}
    for c in sorted(costs):
        if c != "JB1":
            def setcost(s, c=c):
                ok = c in [x.name for x in SupportedCostFunctions[s["pps"][0]["model"]].value]
                s["pps"][0]["cost"] = c
                return ok
            m.append(("cost", f"cost={c}", setcost))
    for t0 in (1, 5):
        m.append(("t0", f"t0={t0}", lambda s, t0=t0: s["pps"][0].__setitem__("t0", t0)))
    m.append(("n", "n=1", lambda s: s["pps"][0].__setitem__("states", s["pps"][0]["states"][:1])))
    m.append(("n", "n=3", lambda s: s["pps"][0]["states"].append(solspec.default_vec(s["pps"][0]["kind"], 0.5))))
    # state lists that are not sorted by time step (the first state stays first, as the Trajectory constructor requires)
    m.append(("n", "n=3,listed-0-2-1", lambda s: (s["pps"][0]["states"].append(solspec.default_vec(s["pps"][0]["kind"], 0.5)), s["pps"][0].__setitem__("order", [0, 2, 1]))[0]))
    m.append(("n", "n=4,listed-0-3-1-2", lambda s: (s["pps"][0]["states"].append(solspec.default_vec(s["pps"][0]["kind"], 0.5)),
                                                   s["pps"][0]["states"].append(solspec.default_vec(s["pps"][0]["kind"], 0.75)), s["pps"][0].__setitem__("order", [0, 3, 1, 2]))[0]))
    m.append(("posdtype", "position-int-array", lambda s: (s["pps"][0].__setitem__("pos_dtype", "int"), [
        st.__setitem__(j, ["i", 2 + j]) for st in s["pps"][0]["states"] for j, (f, i) in enumerate(solspec.fields(s["pps"][0]["kind"])) if f == "position"])[0]
        if any(f == "position" for f, _ in solspec.fields(s["pps"][0]["kind"])) else False))
    for ct in (("f", 0.5), ("i", 3), ("f", 1e-9), ("n", 12.25)):
        m.append(("ct", f"ct={ct[1]!r}:{ct[0]}", lambda s, ct=ct: s.__setitem__("ct", solspec.enc(ct[1], ct[0]))))
    for pn in ("x", "Intel(R) Core(TM) i7-8550U CPU @ 1.80GHz", "Intel(R) Xeon(R) CPU           E5-2670 0 @ 2.60GHz", " lead and trail  "):
        m.append(("proc", f"proc={pn[:5]}" if len(pn) < 45 else f"proc={pn[:5]}..{len(pn)}chars", lambda s, pn=pn: s.__setitem__("proc", pn)))
    for pn in ("Intel\u00ae Core\u2122 i7-8550U", "Prozessor gr\u00f6\u00dfer \u00b5-Architektur", "\u4e2d\u6587 CPU"):
        m.append(("proc", f"proc=non-ascii:{len(pn)}:{ord(pn[-9]) if len(pn) > 9 else 0}", lambda s, pn=pn: s.__setitem__("proc", pn)))
    m.append(("relabel", "planning-problem-ids-assigned-after-construction", lambda s: s.__setitem__("relabel", True)))
    m.append(("retraj", "trajectory-assigned-after-construction(other-kind-first)", lambda s: [p_.__setitem__("retraj", True) for p_ in s["pps"]] and None))
    m.append(("date", "date=None", lambda s: s.__setitem__("date", None)))
    m.append(("date", "date=microseconds", lambda s: s.__setitem__("date", [2019, 12, 31, 23, 59, 59, 999999])))
    m.append(("date", "date=midnight", lambda s: s.__setitem__("date", [2020, 2, 29, 0, 0, 0, 0])))
    m.append(("sid", "sid=coop-multi", lambda s: s.__setitem__("sid", {"coop": True, "country": "USA", "map": "US101", "map_id": 33,
                                                                       "conf": 2, "beh": "P", "pred": [1, 3]})))
    m.append(("sid", "sid=map-2018b", lambda s: s.__setitem__("sid", {"country": "ZAM", "map": "Test", "map_id": 1, "ver": "2018b"})))
    for k2 in KINDS:
        for pos in ("after", "before"):
            def add2(s, k2=k2, pos=pos):
                p2 = {"id": 3, "model": MODEL_OF_KIND[k2], "vtype": 1, "cost": "WX1", "kind": k2, "t0": 2,
                      "states": [solspec.default_vec(k2, 1.5)]}
                if pos == "after":
                    s["pps"].append(p2)
                else:
                    s["pps"].insert(0, p2)
            m.append(("second", f"second-{pos}={k2}", add2))
    n_shape = len(m)
    nf = len(solspec.fields(kind))
    for si in (0, 1):
        for j in range(nf):
            for lk, lv in (LETTERS if full_values else LETTERS[:6]):
                def setv(s, si=si, j=j, lk=lk, lv=lv):
                    if si >= len(s["pps"][0]["states"]) or s["pps"][0]["kind"] != kind:
                        return False
                    if s["pps"][0].get("pos_dtype") == "int" and solspec.fields(kind)[j][0] == "position":
                        return False
                    s["pps"][0]["states"][si][j] = solspec.enc(lv, lk)
                m.append((f"v{si}.{j}", f"s{si}.{solspec.fields(kind)[j][0]}{solspec.fields(kind)[j][1] or ''}={lv!r}:{lk}", setv))
    return m, n_shape


def describe(tier):
    d = {"bases": KINDS, "value_alphabet": [f"{v!r}:{k}" for k, v in LETTERS], "k": 1 if tier == "quick" else 2,
         "exhaustive": True}
    for kind in KINDS:
        m, ns = menu_for(kind, tier)
        d[f"menu_size[{kind}]"] = len(m)
    d["quick_k2_submenu"] = "model/type/cost/t0/n/pos-dtype/ct/proc/date/sid/second-problem deviations"
    return d


def units(tier):
    u = []
    for kind in KINDS:
        u.append({"kind": kind, "part": "k1"})
        u.append({"kind": kind, "part": "k2-shape"})
        if tier == "thorough":
            m, ns = menu_for(kind, tier)
            # k=2 with at least one value deviation, sharded by first deviation index modulo 8
            for sh in range(8):
                u.append({"kind": kind, "part": "k2-values", "shard": sh})
    return u


def _hex(v):
    return float(v).hex()


def check(spec, res, labels=()):
    from commonroad.common.solution import CommonRoadSolutionReader, CommonRoadSolutionWriter, TrajectoryType
    case = {"spec": spec, "labels": list(labels)}
    kinds = [p["kind"] for p in spec["pps"]]
    res.evals += 1; res.transitions += 2; res.states += 1
    if labels:
        res.nontrivial += 1
    try:
        sol = solspec.build_solution(spec)
    except Exception as e:
        # the constructors reject it: not an admissible solution, outside the quantifier
        res.outcomes[f"rejected-by-constructor:{type(e).__name__}"] += 1
        res.guarded += 1
        return
    if spec.get("relabel"):
        # planning-problem ids assigned through the public setter after the solution was built (spec["pps"][i]["id"] is the NEW id)
        for pps_, p_ in zip(sol.planning_problem_solutions, spec["pps"]):
            pps_.planning_problem_id = p_["id"]
        if sol.planning_problem_ids != [p_["id"] for p_ in spec["pps"]]:
            res.violation("C14|planning_problem_ids|after-relabel|solution-reports-old-ids", f"{sol.planning_problem_ids} != {[p_['id'] for p_ in spec['pps']]}", case)
    try:
        text = CommonRoadSolutionWriter(sol).dump()
    except Exception as e:
        res.violation(f"C14|{'+'.join(kinds)}|write|raises:{type(e).__name__}", repr(e), case)
        return
    try:
        back = CommonRoadSolutionReader.fromstring(text)
    except Exception as e:
        res.violation(f"C14|{kinds[0] if len(kinds) == 1 else 'coop'}|read|raises:{type(e).__name__}:"
                      f"{re.sub(r'[^A-Za-z0-9_.:]+', '_', str(e))[:30]}", f"{labels}: {e!r}", case)
        return
    # the file entry points (write_to_file / open) carry the same document as the string entry points (dump / fromstring)
    import tempfile, shutil
    # (every spec within one deviation of a base, and a fixed sixteenth - by its labels - of the pairs of deviations)
    dd = tempfile.mkdtemp(prefix="c14_") if (len(labels) <= 1 or sum(map(ord, "".join(labels))) % 16 == 0) else None
    try:
        if dd is None:
            raise StopIteration
        CommonRoadSolutionWriter(sol).write_to_file(output_path=dd, filename="s.xml", overwrite=True)
        fback = CommonRoadSolutionReader.open(os.path.join(dd, "s.xml"))
        res.transitions += 2
        if fback.processor_name != back.processor_name:
            res.violation("C14|file-entry-points|processor_name|differs-from-string-entry-points", f"{back.processor_name!r} -> {fback.processor_name!r}", case)
        elif CommonRoadSolutionWriter(fback).dump() != CommonRoadSolutionWriter(back).dump():
            res.violation("C14|file-entry-points|document|differs-from-string-entry-points", f"{labels}", case)
    except StopIteration:
        pass
    except Exception as e:
        res.violation(f"C14|file-entry-points|raises:{type(e).__name__}", f"{labels}: {e!r}", case)
    finally:
        if dd is not None:
            shutil.rmtree(dd, ignore_errors=True)
    if back.benchmark_id != sol.benchmark_id:
        res.violation("C14|benchmark_id|value-changed", f"{sol.benchmark_id} -> {back.benchmark_id}", case)
    if back.planning_problem_ids != [p["id"] for p in spec["pps"]]:
        res.violation("C14|planning_problem_ids|value-changed", str(back.planning_problem_ids), case)
    if [t.name for t in back.trajectory_types] != kinds:
        res.violation("C14|trajectory_types|type-lost", f"{[t.name for t in back.trajectory_types]} != {kinds}", case)
    else:
        for p, bp in zip(spec["pps"], back.planning_problem_solutions):
            tr = bp.trajectory
            ts = [s.time_step for s in tr.state_list]
            if ts != list(range(p["t0"], p["t0"] + len(p["states"]))) or tr.initial_time_step != p["t0"]:
                res.violation(f"C14|{p['kind']}|time_step|order", f"{ts}", case)
                continue
            if any(type(t) is not int for t in ts):
                res.violation(f"C14|{p['kind']}|time_step|type-lost", f"{[type(t).__name__ for t in ts]}", case)
            for vec, st in zip(p["states"], tr.state_list):
                for (f, i), v in zip(solspec.fields(p["kind"]), vec):
                    want = solspec.num(v)
                    try:
                        got = getattr(st, f) if i is None else getattr(st, f)[i]
                    except Exception as e:
                        res.violation(f"C14|{p['kind']}|{f}|missing", repr(e), case)
                        continue
                    if _hex(got) != _hex(want):
                        res.violation(f"C14|{p['kind']}|{f}|value-changed",
                                      f"{labels}: {want!r} ({type(want).__name__}) -> {got!r}", case)
    wct = None if spec.get("ct") is None else solspec.num(spec["ct"])
    if (wct is None) != (back.computation_time is None) or (wct is not None and _hex(wct) != _hex(back.computation_time)):
        res.violation("C14|computation_time|value-changed", f"{wct!r} -> {back.computation_time!r}", case)
    if back.processor_name != spec.get("proc"):
        res.violation("C14|processor_name|value-changed", f"{spec.get('proc')!r} -> {back.processor_name!r}", case)
    d = spec.get("date")
    if d is None:
        if back.date is not None:
            res.violation("C14|date|materialised-from-absent", str(back.date), case)
    else:
        import datetime
        if back.date != datetime.datetime(*d[:6]):
            res.violation("C14|date|value-changed", f"{d} -> {back.date}", case)
    # schema
    if all(k in SCHEMA_ORDER for k in kinds) and [SCHEMA_ORDER.index(k) for k in kinds] == sorted(SCHEMA_ORDER.index(k) for k in kinds):
        from lxml import etree
        doc = etree.fromstring(text.encode() if isinstance(text, str) else text)
        if not _xsd().validate(doc):
            msg = str(_xsd().error_log.last_error.message)
            cls = re.sub(r"'[^']*'", "'..'", msg)[:80]
            res.violation(f"C14|{'+'.join(kinds)}|schema:{cls}", f"{labels}: {msg}", case)
        res.outcomes["schema-validated"] += 1
    else:
        res.outcomes["schema-not-applicable(KST or non-schema order)"] += 1
    res.outcomes["roundtrip-ok"] += 1


def run_unit(unit, tier):
    res = Result()
    kind = unit["kind"]
    menu, n_shape = menu_for(kind, tier)
    base = base_spec(kind)
    part = unit["part"]
    if part == "k1":
        it = dev.enumerate_specs(base, menu, 1)
    elif part == "k2-shape":
        it = (x for x in dev.enumerate_specs(base, menu[:n_shape], 2) if len(x[0]) == 2)
    else:
        def gen():
            import copy
            for a in range(len(menu)):
                if a % 8 != unit["shard"]:
                    continue
                for b in range(max(a + 1, n_shape), len(menu)):
                    if menu[a][0] == menu[b][0]:
                        continue
                    spec = copy.deepcopy(base)
                    if menu[a][2](spec) is False or menu[b][2](spec) is False:
                        continue
                    yield (menu[a][1], menu[b][1]), spec
        it = gen()
    for labels, spec in it:
        check(spec, res, labels)
        if labels:
            res.sample({"base": kind, "deviations": list(labels)}, 3)
    return res


def replay(case):
    res = Result()
    check(case["spec"], res, tuple(case.get("labels", ())))
    return [(s, d) for s, d, _ in res.violations]


def canaries():
    from commonroad.common import solution as so
    import xml.etree.ElementTree as et

    @contextlib.contextmanager
    def percent_g():
        o = so.CommonRoadSolutionWriter._create_sub_element

        def bad(cls, name, value):
            e = et.Element(name)
            e.text = ("%g" % value) if isinstance(value, float) else str(value)
            return e
        so.CommonRoadSolutionWriter._create_sub_element = classmethod(bad)
        try:
            yield
        finally:
            so.CommonRoadSolutionWriter._create_sub_element = o

    @contextlib.contextmanager
    def swap_delta():
        o = so.XMLStateFields.MB.value[:]
        v = so.XMLStateFields.MB.value
        i, j = v.index("deltaYf"), v.index("deltaYr")
        orig_parse = so.CommonRoadSolutionReader._parse_state

        # reader-side swap only: emulate "one table edited, the other not"
        def bad(cls, state_type, state_node):
            st = orig_parse.__func__(cls, state_type, state_node)
            if state_type == so.StateType.MB:
                st.delta_y_f, st.delta_y_r = st.delta_y_r, st.delta_y_f
            return st
        so.CommonRoadSolutionReader._parse_state = classmethod(bad)
        try:
            yield
        finally:
            so.CommonRoadSolutionReader._parse_state = orig_parse

    @contextlib.contextmanager
    def sort_desc():
        o = so.CommonRoadSolutionReader._parse_trajectory

        def bad(cls, node):
            pid, tr = o.__func__(cls, node)
            sl = sorted(tr.state_list, key=lambda s: -s.time_step)
            tr._state_list = sl
            return pid, tr
        so.CommonRoadSolutionReader._parse_trajectory = classmethod(bad)
        try:
            yield
        finally:
            so.CommonRoadSolutionReader._parse_trajectory = o
    return [("writer-%g", percent_g), ("reader-deltaYf-deltaYr-swapped", swap_delta), ("reader-sorts-descending", sort_desc)]
