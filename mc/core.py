"""Runner shared by all checks: sharding, violation triage against known findings, replay files,
evidence.  Usage:  python -m mc.run <ID> [--tier quick|thorough] [--replay FILE] [--selftest]

A check module ``mc.checks.cNN`` provides

    PROPERTY     = "CNN"
    RULE         = str      how cases are enumerated and what counts as non-trivial
    ASSUMPTIONS  = [str]
    units(tier)  -> list of JSON-serialisable work units (disjoint parts of the bounded space)
    run_unit(unit, tier) -> Result   executed in a worker process against the real library
    replay(case) -> list[(signature, detail)]   re-executes a single recorded case
    describe(tier) -> dict   (optional) bounds / alphabets for the evidence file
    canaries()   -> list of (name, contextmanager)   (optional) in-process breaking patches

The deciding step is always complete enumeration of the unit list; nothing is sampled and
VERIF_SEED only selects PYTHONHASHSEED (iteration orders inside the library).
"""
from __future__ import annotations

import collections
import fnmatch
import contextlib
import hashlib
import importlib
import json
import multiprocessing
import os
import subprocess
import sys
import time
import traceback

VERIF_DIR = os.path.dirname(os.path.dirname(os.path.abspath(__file__)))
REPO = os.environ.get("VERIF_REPO", "/repo")
KNOWN_FILE = os.path.join(VERIF_DIR, "known_findings.json")
PY = "/venv/bin/python"


class Result:
    """What one work unit covered.  All counts are measured."""

    __slots__ = ("evals", "states", "transitions", "nontrivial", "guarded", "violations", "samples",
                 "outcomes", "extra")

    def __init__(self):
        self.evals = 0          # oracle evaluations
        self.states = 0         # distinct canonical states / distinct specs
        self.transitions = 0    # executions of the implementation
        self.nontrivial = 0     # distinct non-trivial cases (per RULE)
        self.guarded = 0        # cases classified undecidable-in-float, accepted either way
        self.violations = []    # (signature, detail, case)
        self.samples = []       # a few cases written out
        self.outcomes = collections.Counter()   # distinct observed outcomes (anti-vacuity)
        self.extra = {}

    def violation(self, signature, detail, case):
        # keep only the first case per signature inside a unit (shortest-first enumeration order)
        for s, _, _ in self.violations:
            if s == signature:
                self.outcomes["violation-instances"] += 1
                return
        self.outcomes["violation-instances"] += 1
        self.violations.append((signature, str(detail)[:600], case))

    def sample(self, case, cap=3):
        if len(self.samples) < cap:
            self.samples.append(case)

    def pack(self):
        return {k: (dict(getattr(self, k)) if k == "outcomes" else getattr(self, k)) for k in self.__slots__}


_REAL = None


def _bind_repo():
    """Import commonroad from the working tree and prove it."""
    if REPO not in sys.path[:1]:
        sys.path.insert(0, REPO)
    import commonroad
    f = os.path.realpath(commonroad.__file__)
    if not f.startswith(os.path.realpath(REPO) + os.sep):
        raise SystemExit(f"HARNESS-ERROR: commonroad imported from {f}, not from {REPO}")
    return f


def _git(*args):
    try:
        return subprocess.run(["git", "-C", REPO, *args], capture_output=True, text=True, timeout=30).stdout.strip()
    except Exception:
        return ""


def _silence():
    """Library code print()s and logs; keep the contract output clean.  Returns the real stdout/stderr."""
    sys.stdout.flush(); sys.stderr.flush()
    real_out = os.fdopen(os.dup(1), "w", buffering=1)
    real_err = os.fdopen(os.dup(2), "w", buffering=1)
    if not os.environ.get("VERIF_NOISY"):
        dn = os.open(os.devnull, os.O_WRONLY)
        os.dup2(dn, 1); os.dup2(dn, 2)
    import logging, warnings
    logging.disable(logging.CRITICAL)
    warnings.simplefilter("ignore")
    return real_out, real_err


def _worker(args):
    modname, unit, tier = args
    try:
        mod = importlib.import_module(modname)
        r = mod.run_unit(unit, tier)
        return ("ok", unit, r.pack())
    except BaseException:
        return ("err", unit, traceback.format_exc())


def load_known(prop):
    if not os.path.exists(KNOWN_FILE):
        return {}, []
    data = json.load(open(KNOWN_FILE))
    known = {f["signature"]: f for f in data.get("findings", []) if f["property"] == prop and f["status"] == "known"}
    fixed = [f for f in data.get("findings", []) if f["property"] == prop and f["status"] == "fixed"]
    return known, fixed


def sig_hash(sig):
    return hashlib.sha1(sig.encode()).hexdigest()[:12]


def write_replay(prop, sig, detail, case, seed, dirname="replays"):
    d = os.path.join(VERIF_DIR, dirname, prop)
    os.makedirs(d, exist_ok=True)
    path = os.path.join(d, sig_hash(sig) + ".json")
    with open(path, "w") as f:
        json.dump({"property": prop, "signature": sig, "detail": detail, "case": case, "seed": seed,
                   "replay_cmd": f"cd {VERIF_DIR} && {PY} -m mc.run {prop} --replay {path}"}, f, indent=1, default=str)
    return path


def _replay_sigs_subprocess(prop, path, seed):
    env = dict(os.environ, VERIF_SEED=str(seed), VERIF_REPLAY_JSON="1")
    p = subprocess.run([PY, "-m", "mc.run", prop, "--replay", path], cwd=VERIF_DIR, env=env,
                       capture_output=True, text=True, timeout=900)
    for line in p.stdout.splitlines():
        if line.startswith("REPLAY-SIGS "):
            return sorted(json.loads(line[len("REPLAY-SIGS "):]))
    return ["<replay produced no result: rc=%d %s>" % (p.returncode, p.stderr[-300:])]


def main(argv=None):
    import argparse
    ap = argparse.ArgumentParser()
    ap.add_argument("prop")
    ap.add_argument("--tier", default=os.environ.get("VERIF_TIER", "quick"), choices=["quick", "thorough"])
    ap.add_argument("--replay")
    ap.add_argument("--selftest", action="store_true", help="apply in-process canaries; each must be detected")
    ap.add_argument("--jobs", type=int, default=int(os.environ.get("VERIF_JOBS", "16")))
    ap.add_argument("--save-findings", action="store_true",
                    help="maintenance: also store replay files of known findings under findings/")
    ap.add_argument("--no-confirm", action="store_true")
    a = ap.parse_args(argv)
    prop = a.prop.upper()
    seed = int(os.environ.get("VERIF_SEED", "0") or 0)
    hs = str(seed % (2 ** 32))
    if os.environ.get("PYTHONHASHSEED") != hs:
        os.environ["PYTHONHASHSEED"] = hs
        os.execv(sys.executable, [sys.executable, "-m", "mc.run"] + (argv if argv is not None else sys.argv[1:]))
    os.environ.setdefault("MPLBACKEND", "Agg")
    os.environ.setdefault("OMP_NUM_THREADS", "1")
    os.environ.setdefault("OPENBLAS_NUM_THREADS", "1")
    t0 = time.time()
    real_out, real_err = _silence()
    global _REAL
    _REAL = (real_out, real_err)
    impl_file = _bind_repo()
    modname = "mc.checks." + prop.lower()
    mod = importlib.import_module(modname)

    if a.replay:
        rec = json.load(open(a.replay))
        got = mod.replay(rec["case"])
        sigs = sorted({s for s, _ in got})
        if os.environ.get("VERIF_REPLAY_JSON"):
            real_out.write("REPLAY-SIGS " + json.dumps(sigs) + "\n")
        else:
            for s, d in got:
                real_out.write(f"replayed: {s}\n    {d}\n")
            real_out.write("recorded signature %s: %s\n" % (rec["signature"],
                           "REPRODUCED" if rec["signature"] in sigs else "not reproduced"))
        return 1 if sigs else 0

    if a.selftest:
        return _selftest(mod, prop, a, real_out, real_err)

    merged, errors = explore(mod, modname, a.tier, a.jobs, real_err)
    if errors:
        for u, tb in errors[:5]:
            real_err.write(f"HARNESS-ERROR in unit {u!r}:\n{tb}\n")
        real_out.write(f"HARNESS-ERROR property={prop} units_failed={len(errors)}\n")
        return 2

    known, fixed = load_known(prop)
    by_sig = {}
    for sig, detail, case in merged.violations:           # sorted: per signature the smallest case first
        by_sig.setdefault(sig, [])
        if len(by_sig[sig]) < 6:
            by_sig[sig].append((detail, case))
    unlisted = 0
    unlisted_sigs = []
    unconfirmed = []
    seen_known = set()
    for sig in sorted(by_sig):
        detail, case = by_sig[sig][0]
        kmatch = sig if sig in known else next((k for k in known if any(ch in k for ch in "*?[") and fnmatch.fnmatchcase(sig, k)), None)
        if kmatch is not None:
            if kmatch in seen_known:
                continue          # one line per listed finding
            seen_known.add(kmatch)
            real_out.write(f"KNOWN-FINDING: property={prop} {kmatch} :: {known[kmatch].get('what', '')}\n")
            if a.save_findings:
                write_replay(prop, sig, detail, case, seed, dirname="findings")
            continue
        path = write_replay(prop, sig, detail, case, seed)
        if not a.no_confirm:
            # every reported violation must be a stand-alone replayable artefact: replay the smallest case twice in fresh processes; a case that
            # deterministically does not fail on its own (it failed only after other cases had run in the same process) is replaced by the next one
            confirmed = False
            for detail, case in by_sig[sig]:
                path = write_replay(prop, sig, detail, case, seed)
                s1 = _replay_sigs_subprocess(prop, path, seed)
                s2 = _replay_sigs_subprocess(prop, path, seed)
                if s1 != s2:
                    real_out.write(f"HARNESS-NONDETERMINISM property={prop} signature={sig} replay1={s1} replay2={s2}\n")
                    return 2
                if sig in s1:
                    confirmed = True
                    break
            if not confirmed:
                unconfirmed.append(sig)
                continue
        unlisted += 1
        unlisted_sigs.append(sig)
        real_out.write(f"VIOLATION property={prop} replay={path}\n")
        real_out.write(f"    signature: {sig}\n    detail: {detail}\n")
    for sig in unconfirmed:
        real_out.write(f"NOT-REPRODUCED-IN-ISOLATION property={prop} signature={sig} (failed during the exploration, but none of {len(by_sig[sig])} cases fails "
                       f"when replayed alone in a fresh process: state carried between cases)\n")
    if unconfirmed and not unlisted:
        real_out.write(f"HARNESS-NONDETERMINISM property={prop} signatures={unconfirmed}\n")
        return 2
    stale_known = sorted(set(known) - seen_known)

    wall = time.time() - t0
    desc = mod.describe(a.tier) if hasattr(mod, "describe") else {}
    cov = {
        "states": merged.states,
        "transitions": merged.transitions,
        "traces_validated_against_impl": merged.transitions,
        "evaluations": merged.evals,
        "distinct_nontrivial": merged.nontrivial,
        "rule": mod.RULE,
        "samples": merged.samples[:8],
        "exhaustive": bool(desc.pop("exhaustive", True)),
        "guarded": merged.guarded,
        "distinct_outcomes": dict(sorted(merged.outcomes.items())),
        "work_units": merged.extra.get("units", 0),
        "bounds": desc,
        "explanation": "explicit enumeration of the bounded space described in 'bounds'/'rule'; every transition is an "
                       "execution of the real implementation (no separate model), hence traces_validated == transitions",
        "implementation": {"file": impl_file, "git_head": _git("rev-parse", "HEAD"),
                           "worktree_dirty_sha1": hashlib.sha1(_git("diff", "HEAD").encode()).hexdigest()[:12]},
        "violation_signatures_unlisted": sorted(unlisted_sigs),
        "known_findings_seen": sorted(seen_known),
        "known_findings_not_reproduced_in_this_tier": stale_known,
    }
    for k, v in merged.extra.items():
        if k != "units":
            cov[k] = v
    ev = {"property_id": prop, "tier": a.tier, "seed": seed, "level": "model_checking", "coverage": cov,
          "assumptions": list(mod.ASSUMPTIONS), "wall_s": round(wall, 2), "violations": unlisted}
    os.makedirs(os.path.join(VERIF_DIR, "evidence"), exist_ok=True)
    with open(os.path.join(VERIF_DIR, "evidence", prop + ".json"), "w") as f:
        json.dump(ev, f, indent=1, default=str)
    real_out.write(f"{prop} tier={a.tier} seed={seed} units={merged.extra.get('units', 0)} states={merged.states} "
                   f"transitions={merged.transitions} evaluations={merged.evals} nontrivial={merged.nontrivial} "
                   f"guarded={merged.guarded} known={len(seen_known)} violations={unlisted} wall={wall:.1f}s\n")
    return 1 if unlisted else 0


def explore(mod, modname, tier, jobs, real_err=None):
    units = list(mod.units(tier))
    merged = Result()
    errors = []
    tasks = [(modname, u, tier) for u in units]
    if jobs <= 1 or len(units) <= 1:
        it = map(_worker, tasks)
        pool = None
    else:
        pool = multiprocessing.get_context("fork").Pool(min(jobs, len(units)), maxtasksperchild=getattr(mod, "MAXTASKS", None))
        it = pool.imap_unordered(_worker, tasks, chunksize=1)
    per_unit = []
    for status, unit, payload in it:
        if status == "err":
            errors.append((unit, payload))
            continue
        merged.evals += payload["evals"]; merged.states += payload["states"]
        merged.transitions += payload["transitions"]; merged.nontrivial += payload["nontrivial"]
        merged.guarded += payload["guarded"]
        merged.violations.extend(tuple(v) for v in payload["violations"])
        per_unit.append((json.dumps(unit, sort_keys=True, default=str), payload["samples"]))
        merged.outcomes.update(payload["outcomes"])
        for k, v in payload["extra"].items():
            if isinstance(v, (int, float)) and not isinstance(v, bool):
                merged.extra[k] = merged.extra.get(k, 0) + v
            elif isinstance(v, list):
                merged.extra.setdefault(k, [])
                for x in v:
                    if x not in merged.extra[k] and len(merged.extra[k]) < 200:
                        merged.extra[k].append(x)
            else:
                merged.extra[k] = v
    if pool is not None:
        pool.close(); pool.join()
    # deterministic sample choice: first, last and middle units
    per_unit.sort()
    picks = sorted({0, len(per_unit) // 4, len(per_unit) // 2, (3 * len(per_unit)) // 4, len(per_unit) - 1}) if per_unit else []
    for i in picks:
        for s in per_unit[i][1][:2]:
            merged.samples.append(s)
    def _size(case):
        if isinstance(case, dict):
            for k in ("labels", "history", "deviations"):
                if isinstance(case.get(k), (list, tuple)):
                    return len(case[k])
        return 0
    # per signature the smallest case first (fewest deviations / shortest history), then a fixed order
    merged.violations.sort(key=lambda v: (v[0], _size(v[2]), json.dumps(v[2], sort_keys=True, default=str)))
    merged.extra["units"] = len(units)
    return merged, errors


def _selftest(mod, prop, a, real_out, real_err):
    """In-process canaries: monkeypatches that break the property in a known way must be flagged."""
    if not hasattr(mod, "canaries"):
        real_out.write(f"{prop}: no canaries defined\n")
        return 0
    missed = 0
    base, errors = explore(mod, "mc.checks." + prop.lower(), a.tier, a.jobs)
    base_sigs = {v[0] for v in base.violations}
    for name, cm in mod.canaries():
        try:
            with cm():
                merged, errors = explore(mod, "mc.checks." + prop.lower(), a.tier, a.jobs)
        except Exception as e:
            real_out.write(f"canary {name}: could not be applied ({e!r})\n")
            continue
        new = sorted({v[0] for v in merged.violations} - base_sigs)
        if errors and not new:
            real_out.write(f"canary {name}: harness error {errors[0][1][-300:]}\n"); missed += 1
        elif new:
            real_out.write(f"canary {name}: DETECTED ({len(new)} new signatures, e.g. {new[0]})\n")
        else:
            real_out.write(f"canary {name}: MISSED\n"); missed += 1
    return 3 if missed else 0
