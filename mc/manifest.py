"""Regenerates /verif/MANIFEST.json from the table below and validates it against the schema.
Run:  python3-vt -m mc.manifest   (or /venv/bin/python -m mc.manifest; validation needs jsonschema)"""
import json
import os

VERIF = os.path.dirname(os.path.dirname(os.path.abspath(__file__)))
PY = "/venv/bin/python"
BASELINE = ("cd /repo && /venv/bin/python -m pytest -ra -q -p no:cacheprovider --timeout=900 "
            "--continue-on-collection-errors")

# id -> (technique, level text, level note, design ref)
CHECKS = {
    "C17": ("exhaustive enumeration of all cycles x offsets x time steps (bounded full product) against a "
            "list-expansion reference model, on the real TrafficLightCycle",
            "Every cycle with <=3 (thorough <=4) elements over the duration/colour/offset alphabets and every integer time "
            "step over five periods is executed on the real implementation (fresh object, shared memoised object in "
            "ascending and descending query order, via TrafficLight) and compared with the expanded colour list; "
            "periodicity checked. Complete within the stated bounds.",
            "trusted: the 10-line list-expansion oracle; durations/offsets outside the alphabets are not covered",
            "DESIGN.md §4 C17"),
    "C16": ("exhaustive enumeration of the full product of interval / angle-interval grids x operations x argument types "
            "against exact rational (Interval) and guard-banded modular (AngleInterval) set semantics",
            "All Interval methods named in the statement over a 9-letter end alphabet typed int and float (constructor order, "
            "contains value/interval, overlaps, intersection, * / + - round) with exact Fraction oracles; AngleInterval "
            "contains(value), contains(interval), shifting and constructor normalisation over every start on the pi/8 "
            "(thorough pi/16) grid in [-2pi,2pi] x every length up to 2pi-1e-3 x float/numpy/int/off-grid queries. "
            "Complete within those grids.",
            "trusted: Fraction arithmetic; the 1e-9 guard band at angle-interval ends (either answer accepted there, "
            "counted as guarded); values between grid points are represented by one off-grid letter per cell only",
            "DESIGN.md §4 C16"),
    "C13": ("exhaustive enumeration of the full ScenarioID field product and of all (model,type,cost) tuples / ordered pairs "
            "/ core triples through the real printer, parser, solution writer and reader, against an independent grammar",
            "Every ScenarioID over the field alphabets (quick 5 countries, thorough all ISO-3166 alpha-3 + ZAM: 1.7 M ids) is "
            "printed, matched against an independently written grammar, compared field-by-field with what it must spell, "
            "parsed back and re-printed. Every admissible solution tuple, every ordered pair and core triples are written by "
            "CommonRoadSolutionWriter and read by CommonRoadSolutionReader and compared. Complete within these alphabets.",
            "trusted: the regular grammar written from the id documentation; one-element prediction lists excluded "
            "(ambiguous by construction)",
            "DESIGN.md §4 C13"),
    "C14": ("exhaustive enumeration of all solution specs within k deviations (k<=1 quick + k=2 on the shape sub-menu; k<=2 "
            "thorough) of 7 base solutions, each dumped and re-read by the real writer/reader and validated with lxml "
            "against the shipped solution XSD",
            "Deviation-bounded complete enumeration (CHESS-style bound on departures from a base input): every model / type / "
            "cost, time offsets, lengths, every scalar slot of every state set to every letter of a 16-letter value alphabet "
            "(ints, numpy floats, denormals, 1e300, -0.0), metadata and a second planning problem of every kind in both "
            "orders. Oracle: float.hex-identical values, ids, types, order, metadata; XSD validity in schema order.",
            "trusted: lxml's XSD validator, float.hex comparison; values outside the alphabet and >2 simultaneous deviations "
            "are not covered",
            "DESIGN.md §4 C14"),
    "C20": ("exhaustive enumeration: all lattice polylines x arc lengths against an independent arc-length walker; all "
            "joinable ordered pairs for merge; ALL directed lanelet graphs on n<=4 (thorough n=5, <=6 edges) x start x range "
            "limits for successor/predecessor enumeration, each call under a non-termination alarm",
            "Complete enumeration of (a) every centre line of <=3 (thorough <=4) steps from a 6-step integer-length lattice "
            "x 3 boundary-offset schemes x every vertex / mid / quarter / end arc length, (b) 1600 joinable pairs x 3 ways of "
            "declaring the relation x both argument orders, (c) every digraph without self-loops on up to 4 lanelets (4096 "
            "for n=4; thorough adds n=5 up to 6 edges) x 2 length assignments x every start x 6 ranges, checking every "
            "chain clause of the statement and termination.",
            "trusted: the arc-length walker and chain-clause checker (60 lines); graphs larger than the bound and polylines "
            "off the lattice are not covered; completeness of the chain set is not asserted beyond the stated clauses",
            "DESIGN.md §4 C20"),
    "C09": ("explicit-state breadth-first search over all add/remove/replace/generate operation histories (depth 3 quick, 4 "
            "thorough) of the real Scenario from 3 start states, in lock-step with an abstract id-pool reference model",
            "Every history over a universe of 17 objects with cross-kind colliding ids and 2 replacement networks (about 45 "
            "enabled operations per state: single and list forms of every add/remove, referenced_elements on/off, replace, "
            "erase, generate) is executed on a freshly rebuilt Scenario; after every transition: pairwise-distinct ids, "
            "accept/reject equals the model, rejected adds leave the public snapshot unchanged, contained objects equal the "
            "model's, generated ids fresh. States de-duplicated on public content + reserved-id set + counter.",
            "trusted: the id-pool model (60 lines). Bound: histories longer than the depth and objects outside the universe "
            "are not covered; list-form adds that would partially fail and network replacement colliding with obstacles are "
            "outside the statement and not generated",
            "DESIGN.md §4 C09"),
    "C12": ("exhaustive one-factor enumeration: every class x 2 bases x every constructor parameter x every alternative value "
            "x permuted insertion orders (thorough: all parameter pairs for container classes), evaluated on freshly built "
            "real objects against the eq/hash contract",
            "50 classes (every shape, interval, every state class via dataclass introspection, signal state, trajectory, "
            "occupancy, predictions, all obstacle roles, stop line, lanelet, signs, lights, intersections, areas, map "
            "information, goal region, planning problem(s), scenario id, time/geo/environment/location, lanelet network and "
            "scenario built by operations): reflexivity, deepcopy, rebuild-equality, symmetry, inequality for every "
            "single-parameter change (reals +1e-9 and scaled), order independence of id sets, hash totality and "
            "eq => equal hash. Complete over the alternative tables.",
            "trusted: the alternative tables (hand-written per class) and the 'still visibly different after construction' "
            "guard; list-typed parameters whose comparison the library defines as set-based are not asserted order-sensitive",
            "DESIGN.md §4 C12"),
    "C08": ("exhaustive enumeration of per-attribute full products (orientation interval x value x argument type x state "
            "class; shape x grid point; velocity; time), all satisfied/violated combinations per constraint subset, all "
            "ordered goal-state pairs x state core, point-mass heading grid and all trajectories of length <=3, on the real "
            "GoalRegion/PlanningProblem against an independent evaluation of the statement",
            "Orientation: 44 intervals (all starts x lengths 0..2pi-1e-3) x 92 query angles (float, numpy, int) x 5 kinematic "
            "state classes; position: 10 goal shapes (rectangles, rotated, circles, concave polygon, shape group, lanelet "
            "goals) x 315 half-integer grid points decided by exact rational geometry; conjunction: every subset of "
            "constraints x every satisfied/violated pattern; disjunction: 12x12 ordered goal-state pairs x 56 states incl. "
            "point-mass; PM: 16 headings x 3 speeds x 10 goals; goal_reached: all trajectories of <=3 states over a 4-state "
            "pool x 4 start steps x 4 goals.",
            "trusted: exact geometry in mc/geom.py and the angle oracle shared with C16; guard band 1e-9 at interval ends "
            "modulo 2pi and on rotated/circular boundaries",
            "DESIGN.md §4 C08"),
    "C05": ("exhaustive enumeration of component kinds (singles, all unordered pairs, all together) x application level x "
            "translations x a 42-letter angle alphabet (dense near 0, +-0.05, quarter turns, +-2pi, ints), comparing public "
            "snapshots before/after with an independently computed rigid motion, plus undo",
            "13 component kinds (lanelet+stop line, sign, light, static/dynamic/set-based/phantom/environment obstacles, every "
            "shape kind, uncertain regions and orientation intervals, planning problems with every goal-shape kind, lanelets "
            "sharing one boundary array) at scenario / object / part level and 22 stand-alone leaf objects; every stored "
            "point must equal R(a)(p+t) within 1e-9*scale, every orientation theta+a modulo 2pi inside [-2pi,2pi], lengths / "
            "radii / local obstacle shapes / discrete data unchanged, cached rectangle corners included, undo restores.",
            "trusted: math.cos/sin on the snapshot (mc/snap.py rigid); translations and angles outside the alphabets and "
            "scenarios beyond the component menu are not covered",
            "DESIGN.md §4 C05"),
    "C04": ("exhaustive enumeration of obstacle role x shape x state class x initial time step x trajectory length x pose x "
            "every integer time step around the horizon (exact states), region kind x orientation half-width x shape x role "
            "(uncertain states, enclosure decided on an exact finite candidate set), obstacles changed through public "
            "mutators, and all sets of <=3 obstacles x time x filters for the scenario-level queries",
            "Exact: expected region R(theta)v+p from the spec for static / dynamic (7 trajectory state classes incl. "
            "point-mass) / set-based / phantom / environment obstacles x 5 shapes x 8 poses x 2 start steps x lengths x gaps x "
            "all t in [t0-2, tend+2], incl. state/time pairing and None outside the horizon. Uncertain: support-function "
            "containment of the shape at every extreme position and every critical orientation inside the returned "
            "rectangle. Scenario level: all subsets of size <=3 of an 8-obstacle pool x 7 time steps x role/type filters x "
            "6 position boxes against what the per-obstacle answers imply.",
            "trusted: plain trigonometry and the support-function argument in mc/checks/c04.py; placement of off-centre "
            "members of shape groups is not asserted (rotation centre not fixed by the statement)",
            "DESIGN.md §4 C04"),
    "C06": ("exhaustive enumeration of lanelet subsets x 14 construction routes x all grid points / query shapes x anchors / "
            "obstacles, and shape alphabet x grid points, against exact rational geometry (fractions) on the raw vertices",
            "Every subset of size <=2 (thorough <=3) of an 8-lanelet half-integer alphabet (overlapping, boundary-sharing, "
            "kinked, narrow, diagonal, far) built through every route (list, lanelet-wise both orders, Scenario, XML, protobuf, "
            "deepcopy, pickle, copy-of-network, deferred index, add/remove swaps that keep the lanelet count) is queried at "
            "1093 points (find_lanelet_by_position, Lanelet.contains_points), with 9 query shapes at 20 anchors "
            "(find_lanelet_by_shape) and 40 static obstacles (get_obstacles, map_obstacles_to_lanelets, "
            "filter_obstacles_in_network); 12 shapes x all points: contains_point and exported shapely geometry vs the "
            "defining parameters.",
            "trusted: mc/geom.py (exact crossing-number, segment intersection, point-segment distance). Guarded: rotated "
            "rectangles within 1e-7 relative of touching, circles within 1% of r (shapely 64-gon). Known finding listed: "
            "Circle.shapely_object has radius r/2 (repair would break two pinned tests)",
            "DESIGN.md §4 C06"),
    "C07": ("exhaustive enumeration of networks x obstacle sets x assignment routes with an exact-geometry oracle, plus "
            "explicit-state BFS over add / assign / assign-one / remove / remove-list histories on real Scenario objects in "
            "lock-step with a (present, assigned) reference model",
            "Inputs: 4 networks x all obstacle sets of size 1 (thorough: and all of size 2; quick: a quarter of the pairs) "
            "from a 17-obstacle pool (static, dynamic+trajectory incl. late start and turning on the spot, dynamic without "
            "prediction; rectangle, circle, hexagon; inside / straddling / touching / outside poses) x {assign_obstacles_to_"
            "lanelets, XML open(lanelet_assignment=True), protobuf open(...)}: per obstacle and time step the recorded centre "
            "and shape lanelet sets vs exact geometry, registries == inverse relation, every contained obstacle removable, "
            "registries empty afterwards. Histories: BFS depth 4 (thorough 7) over 4 obstacles on 2 lanelets.",
            "trusted: mc/geom.py; circles within 1% of r and rotated shapes within 1e-7 of touching are guarded. Known finding "
            "listed: circular obstacles are assigned with radius r/2 (consequence of the C06 finding)",
            "DESIGN.md §4 C07"),
    "C10": ("explicit-state BFS over removal histories (network level and scenario level, single/list forms, "
            "referenced_elements on/off) on every network variant within k deviations of a 5-lanelet base, with all cut-outs "
            "evaluated as terminal operations at the reached states, against a pure dict-graph reference model and an "
            "independent referential-integrity scan",
            "8 network variants (thorough: all 29 within 2 deviations: diamond, sixth lanelet, adjacency flip, sign on all, "
            "second intersection, shared light, incoming with two lanelets); BFS depth 3 (thorough 4) over every enabled "
            "removal; after every transition the public snapshot must equal the model's (relations restricted, every other "
            "element and its content unchanged, signs/lights removed with a lanelet iff no remaining lanelet references them) "
            "and contain no dangling id; cut-outs: 7 shapes x 8 excluded-type sets and all lanelet subsets of size <=2 at "
            "every state up to depth 1 (thorough 2), with exact-geometry kept sets and source-unchanged check.",
            "trusted: the model functions in mc/checks/c10.py (120 lines) and mc/geom.py; incoming.left_of and "
            "sign.first_occurrence are not asserted (not reference kinds of the statement)",
            "DESIGN.md §4 C10"),
    "C11": ("explicit-state BFS over interleavings of public mutators and cache-filling queries on real objects (5 subjects), "
            "each history replayed on a fresh object, with a differential oracle: live object vs an object rebuilt through "
            "the public constructors from the live object's current primary data",
            "Subjects: dynamic obstacle + trajectory prediction (kinematic and point-mass trajectories; 16 operations: "
            "translate_rotate at obstacle/prediction/trajectory level, shape=, trajectory=, update_prediction, prediction=, "
            "initial_state=, update_initial_state with history lengths 1..3, query-all), lanelet network (translate_rotate at "
            "network and lanelet level, add/remove with and without index rebuild, query-all), traffic light (cycle_elements=, "
            "element duration/state, time_offset=, cycle=, append, query), whole scenario. Depth 3-4 (thorough 4-5); after "
            "every transition all queries (occupancy/state at t, occupancy_set, polygon, distance, interpolate, "
            "contains_points, lookups by position and shape, light state) are compared live vs fresh; history lists vs a list "
            "model.",
            "trusted: the fresh-rebuild functions (public constructors only). Two known findings listed (lanelet-level and "
            "trajectory-level translate_rotate cannot reach the caches of the containing network / prediction); lookups are not "
            "compared while the caller has deferred the index with rtree=False",
            "DESIGN.md §4 C11"),
    "C02": ("deviation-bounded exhaustive enumeration (CHESS-style bound transplanted to inputs): all scenario specs within k "
            "deviations of a rich base scenario, each built into real objects, written by the real protobuf writer, read by the "
            "real reader and compared as public snapshots (bit-identical reals)",
            "Menu of ~1000 deviations generated from every library enum member present in the shipped protobuf descriptors "
            "(line markings, lanelet types, road users, obstacle types per role, light colours/directions, tags, environment, "
            "every traffic-sign id of every country enum), optional elements on/off, shape kinds at every shape position, "
            "uncertain regions, state classes (KS, ST, MB, ExtendedPM, PM, Custom), interval-valued attributes, all 15 subsets "
            "of unset initial-state attributes, goal variants incl. lanelet goals for some goal states, default-argument "
            "obstacles, a 9-letter real alphabet on 11 quantities. quick: k<=1 complete + 1/16 of all pairs; thorough: k<=2 "
            "complete (~480k round trips). Every 8th k<=1 spec is also written twice by the same writer.",
            "trusted: mc/snap.py (public accessors), mc/spec.py builders; expected content = snapshot before writing. "
            "Conventions applied to both sides: unset initial-state attributes read back as 0, signal_series None == [], "
            "stop-line refs None == empty, lanelet assignments not file content",
            "DESIGN.md §4 C02"),
    "C01": ("deviation-bounded exhaustive enumeration: all scenario specs within k deviations of the base scenario x decimal "
            "precisions, each written by the real XML writer, read by the real reader and compared as public snapshots "
            "within 10^-d",
            "Menu of ~950 deviations restricted to what the shipped 2020a XSD can express (enumerations parsed from the XSD; "
            "every sign id of every supported country with the matching scenario country), same structure as C02 plus "
            "degenerate and narrow intervals and stop-line-only references. quick: k<=1 x d in {1,4,12} + 1/16 of all pairs at "
            "d=4; thorough: k<=1 x d=1..12, all pairs at d=4, 1/8 of all pairs at d=2.",
            "trusted: mc/snap.py, mc/spec.py; expected = snapshot of the objects built from the spec with the documented "
            "reader conventions applied (unset initial-state attributes -> 0, stop line without points -> lanelet end, sign "
            "first_occurrence not in the schema). Known finding listed: sign 'virtual' flag is lost (pinned tests assert it)",
            "DESIGN.md §4 C01"),
    "C03": ("deviation-bounded exhaustive enumeration of scenario specs (C01 spec set + a magnitude menu at k<=2) x decimal "
            "precisions; every written file is validated with lxml against the shipped XSD, lexically scanned and opened with "
            "the library's reader",
            "General menu (~950 deviations, k<=1 x d in {1,4,12} (thorough 1..12), pairs 1/16 (thorough all) at d=4) for "
            "element order, required elements, enumerations and id key/keyref; magnitude menu (138 deviations: orientations "
            "1e-6/-3e-5/1e-16, lengths/radii 5e-5..1e16, coordinates 1e5..1e16 and -0.0, time-step sizes, gps, scaling) at "
            "k<=1 for d=1..12 and all pairs at d in {1,4} (thorough {1,2,4,12}).",
            "trusted: lxml/libxml2 XSD validation; the lexical scan regex -?\\d+(\\.\\d+)? over the numeric leaf elements",
            "DESIGN.md §4 C03"),
    "C15": ("explicit-state BFS over histories of writer constructions and write calls on real writers and real files, with a "
            "differential oracle against the pristine history [construct identical writer, same call]",
            "Operations: construct a writer (XML/protobuf x precisions {1,12} (thorough {1,4,12}) x 2 scenarios; at most 2 "
            "(thorough 3) writers alive), write_to_file / write_scenario_to_file to fresh paths, write_to_file onto an existing "
            "file with SKIP and ALWAYS. Depth 4 (thorough 5), sharded by the first two operations, states de-duplicated on the "
            "writers' parameters and write counts plus the process-global precision. Every produced file (date masked) must "
            "equal the pristine file byte for byte and read back to the scenario; SKIP leaves bytes untouched.",
            "trusted: date masking (regex for XML, message field clear + deterministic serialisation for protobuf); the "
            "pristine reference is produced in the same process by constructing and immediately using a writer",
            "DESIGN.md §4 C15"),
    "C18": ("exhaustive enumeration of read-only operation sequences (every edge of the state graph must be a self-loop) from "
            "14 start states on real objects, comparing a deep public snapshot incl. behavioural probes before/after every "
            "operation and the XML/protobuf export with that of an untouched twin",
            "Start states: base scenario, point-mass trajectories as CustomState without orientation and as PMState, uncertain "
            "states, goal lanelets (plain dict for some goal states, unsorted lists, all goal states), default arguments, "
            "scenarios read back from XML and protobuf (defaultdict goal tables) and 4 shipped fixture files. 26 operations "
            "(occupancy/state queries, occupancy_set, scenario queries and filters, lanelet lookups and successor search, "
            "light states, goal checks, ==/hash/str, deepcopy, pickle, draw+render twice, XML/protobuf writers, validity "
            "check). quick: all singles + all ordered pairs over a 14-operation core; thorough: all ordered pairs + all triples "
            "over an 8-operation core.",
            "trusted: mc/snap.py snapshot (public accessors, declared/used attributes and class of every state, dict types, "
            "registries) plus two behavioural probes; exceptions raised by an operation are other properties' business",
            "DESIGN.md §4 C18"),
    "C19": ("exhaustive enumeration: all k<=1 scenario specs with default parameters; rich scenarios x 6 time windows x every "
            "boolean draw flag of the introspected parameter tree (k<=1 quick, k<=2 thorough) x id filters for totality; rich "
            "scenarios x windows x id filters in the exact configuration with the drawn patch multiset compared to the model's "
            "occupancies; all (group, field) pairs of the parameter tree on fresh trees and after every single nested "
            "assignment for propagation",
            "(a) draw + render on an Agg canvas must not raise: ~950 single-deviation scenarios, 9 rich scenarios (late "
            "obstacles, set-based, phantom, environment, point-mass, uncertain states, fixtures with intersections, signs, "
            "complex lights) x windows before/inside/after the horizons x ~200 boolean flags x lanelet / planning-problem id "
            "filters. (b) patches collected between draw and render == occupancy_at_time(time_begin) of every obstacle (+ later "
            "window steps for set-based predictions), lanelet fill collection == all / selected lanelet polygons. (c) setting a "
            "field on a group reaches every nested group that declares it and changes nothing else, also after a nested group "
            "was set individually.",
            "trusted: matplotlib Agg; patch canonicalisation (rounded vertices, rotation-normalised). Windows whose end "
            "coincides with a set-based occupancy step are not generated; phantom later steps optional; uncertain-position "
            "states take part in totality only",
            "DESIGN.md §4 C19"),
}

NOT_YET = {}


def build():
    props = [json.loads(l) for l in open(os.path.join(VERIF, "properties.jsonl"))]
    checks = []
    na = []
    for p in props:
        i = p["id"]
        if i in CHECKS:
            tech, text, note, ref = CHECKS[i]
            checks.append({
                "property_id": i,
                "quick_cmd": f"{PY} -m mc.run {i} --tier quick",
                "thorough_cmd": f"{PY} -m mc.run {i} --tier thorough",
                "evidence_file": f"/verif/evidence/{i}.json",
                "replay_cmd_template": f"{PY} -m mc.run {i} --replay {{path}}",
                "engine": "mc",
                "level_claimed": {"category": "model_checking", "text": text, "design_ref": ref},
                "level_note": note,
                "technique": tech,
            })
        else:
            na.append({"property_id": i, "reason": NOT_YET.get(
                i, "not claimed yet: the bounded exhaustive check designed in DESIGN.md §4 for this property is not built "
                   "in this commit (the technique applies; this entry disappears when the check lands)")})
    m = {
        "version": 1,
        "setup_cmd": f"cd /verif && {PY} -c \"import mc.core, commonroad, lxml, shapely, numpy; print('ok')\"",
        "hooks": {
            "guard": "COMMONROAD_IO_VERIF",
            "enable": "no source hooks exist: checks import the working tree of /repo directly (editable install; "
                      "mc.core asserts commonroad.__file__ is under /repo); private fields are only read for "
                      "state canonicalisation",
            "baseline_off_cmd": BASELINE,
            "source_commits": [],
            "add_only": True,
        },
        "engines": [{
            "name": "mc", "path": "/verif/mc",
            "serves_properties": sorted(CHECKS),
            "kind_free_text": "hand-written explicit-state / bounded-exhaustive explorer in Python driving the real "
                              "commonroad objects: E1 breadth-first search over operation histories with canonical-state "
                              "de-duplication and lock-step reference models; E2 complete enumeration of input grids and "
                              "of all specs within k deviations of base specs; 16 forked workers, fixed PYTHONHASHSEED",
        }],
        "checks": checks,
        "not_applicable": na,
        "notes": "All checks: exit 0 = held on everything explored (KNOWN-FINDING lines for findings listed in "
                 "/verif/known_findings.json), exit 1 + VIOLATION line for unlisted violations, exit 2 = harness error. "
                 "VERIF_SEED selects PYTHONHASHSEED only; the enumerated case set is identical for every seed.",
    }
    return m


def main():
    m = build()
    path = os.path.join(VERIF, "MANIFEST.json")
    with open(path, "w") as f:
        json.dump(m, f, indent=1)
    try:
        import jsonschema
        jsonschema.validate(m, json.load(open("/root/.vp/MANIFEST.schema.json")))
        print("MANIFEST.json valid;", len(m["checks"]), "checks,", len(m["not_applicable"]), "not_applicable")
    except ImportError:
        print("written (jsonschema not available for validation)")


if __name__ == "__main__":
    main()
