"""C10 - removing or cutting out network elements leaves no dangling references.  E1 (removal histories) + E2-grid (cut-outs).

Networks: a 5-lanelet base (chain 1->2->3, 4 adjacent-left-same of 2, 5 adjacent-right-opposite of 2, shared and private signs and
lights, stop lines, an intersection with two incoming elements and a crossing) and all its variants within k deviations.
BFS over removal histories at network level and at scenario level (single / list forms, referenced_elements on/off); at every
reached state the terminal cut-outs create_from_lanelet_network(shape x excluded types) and create_from_lanelet_list(subset) are
evaluated.  Reference model: pure functions on the public snapshot (plain dicts); referential integrity is checked independently.
"""
import contextlib
import copy
import itertools
import json

from mc.core import Result
from mc import bfs, netgeo, snap, spec

PROPERTY = "C10"
RULE = ("BFS over all removal histories up to the depth bound from every network variant (k deviations of the base), level network "
        "and level scenario; at every distinct reached state all cut-outs (7 shapes x 8 excluded-type sets; all lanelet subsets of "
        "size<=2 for create_from_lanelet_list). States de-duplicated on the public snapshot. non-trivial = states reached by >=1 "
        "removal that still contain references")
ASSUMPTIONS = ["incoming 'left_of' and sign 'first_occurrence' are not among the statement's reference kinds (dangling ones are not asserted; a 'left_of' whose target is still present is content and must be unchanged)",
               "stop lines refer only to signs/lights their lanelet also references (quantifier)",
               "cut-outs: which incoming elements / intersections / unreferenced signs survive is asserted only where a relation between "
               "two kept lanelets would otherwise be lost; everything that survives must be exactly the restriction of the original",
               "shape cut-outs use axis-aligned rectangles, a polygon and a circle placed clear of the 1% guard band"]

# lanelet id -> (x0, x1, y0, y1, types)
GEO = {1: (0.0, 10.0, 0.0, 3.0, ["URBAN"]), 2: (10.0, 20.0, 0.0, 3.0, ["URBAN", "MAIN_CARRIAGE_WAY"]), 3: (20.0, 30.0, 0.0, 3.0, ["HIGHWAY"]),
       4: (10.0, 20.0, 3.0, 6.0, ["BUS_LANE"]), 5: (10.0, 20.0, -3.0, 0.0, ["SIDEWALK"]), 6: (30.0, 40.0, 0.0, 3.0, ["HIGHWAY", "URBAN"])}
GEO[0] = GEO[5]       # deviation lanelet-id-zero: lanelet 5 carries the id 0
TABLE = {i: ([(g[0], g[2]), (g[1], g[2])], [(g[0], g[3]), (g[1], g[3])]) for i, g in GEO.items()}


def lane(i, **kw):
    x0, x1, y0, y1, types = GEO[i]
    d = {"id": i, "left": [[x0, y1], [(x0 + x1) / 2, y1], [x1, y1]], "right": [[x0, y0], [(x0 + x1) / 2, y0], [x1, y0]], "types": list(types),
         "mark_left": "DASHED", "mark_right": "SOLID", "users_one_way": ["CAR", "BUS"]}
    d.update(kw)
    return d


def base_network():
    sp = {"lanelets": [
        lane(1, succ=[2]),
        lane(2, pred=[1], succ=[3], adj_left=[4, True], adj_right=[5, False], signs=[10], lights=[12],
             stop_line={"start": [19.0, 0.0], "end": [19.0, 3.0], "marking": "SOLID", "sign_ref": [10], "light_ref": [12]}),
        lane(3, pred=[2], signs=[10, 11], stop_line={"start": [29.0, 0.0], "end": [29.0, 3.0], "marking": "DASHED", "sign_ref": [11], "light_ref": []}),
        lane(4, adj_right=[2, True], lights=[13]),
        lane(5, adj_left=[2, False])],
        "signs": [{"id": 10, "elements": [("TrafficSignIDGermany", "MAX_SPEED", ["50"])], "first_occurrence": [2], "position": [12.0, 7.0]},
                  {"id": 11, "elements": [("TrafficSignIDGermany", "STOP", [])], "first_occurrence": [3], "position": [28.0, 4.0]}],
        "lights": [{"id": 12, "position": [19.0, 4.0], "cycle": [("RED", 2), ("GREEN", 3)], "offset": 1},
                   {"id": 13, "position": [19.0, 7.0], "cycle": [("GREEN", 5)]}],
        "intersections": [{"id": 20, "incomings": [{"id": 21, "lanelets": [1], "straight": [3], "right": [], "left": []},
                                                   {"id": 22, "lanelets": [4], "right": [5], "straight": [], "left": [], "left_of": 21}], "crossings": [5]}]}
    return sp


def deviations():
    def diamond(sp):
        sp["lanelets"][0]["succ"].append(3); sp["lanelets"][2]["pred"].append(1)

    def sixth(sp):
        sp["lanelets"].append(lane(6, pred=[3], signs=[11])); sp["lanelets"][2]["succ"] = [6]

    def adj_flip(sp):
        sp["lanelets"][3]["adj_left"] = [5, False]; sp["lanelets"][4]["adj_right"] = [4, False]

    def sign_all(sp):
        for l in sp["lanelets"]:
            l.setdefault("signs", [])
            if 10 not in l["signs"]:
                l["signs"].append(10)

    def second_intersection(sp):
        sp["intersections"].append({"id": 30, "incomings": [{"id": 31, "lanelets": [2, 5], "left": [4], "straight": [3], "right": []}], "crossings": [1, 4]})

    def light_shared(sp):
        sp["lanelets"][2].setdefault("lights", []).append(12)
        sp["lanelets"][2]["stop_line"]["light_ref"] = [12]

    def stopline_light_subset(sp):
        # stop lines that refer to a strict subset of the lights of their lanelet (2: one of two; 4: none of one)
        sp["lanelets"][1]["lights"] = [12, 13]
        sp["lanelets"][3]["stop_line"] = {"start": [9.0, 3.0], "end": [9.0, 6.0], "marking": "SOLID", "sign_ref": [], "light_ref": []}

    def one_sided_links(sp):
        # relations stored on one side only: 1 lists 2 as successor but 2 does not list 1 as predecessor; 3 lists 2 as predecessor but 2 does not
        # list 3 as successor; 4 lists 2 as right neighbour but 2 does not list 4 (whatever refers to a removed lanelet must still be cleaned)
        sp["lanelets"][1]["pred"] = []; sp["lanelets"][1]["succ"] = []; sp["lanelets"][1].pop("adj_left", None)

    def signs_without_first_occurrence(sp):
        # signs as a file reader creates them: referenced by lanelets and stop lines, first_occurrence empty
        for sg in sp["signs"]:
            sg["first_occurrence"] = []

    def shared_reference_sets(sp):
        # lanelets 2 and 3 are constructed with ONE set object for their light references (and one for their sign references); 3 has a stop line
        # with its own reference sets
        sp["lanelets"][1]["lights"] = [12]; sp["lanelets"][2]["lights"] = [12]
        sp["lanelets"][1]["lights_shared"] = "L"; sp["lanelets"][2]["lights_shared"] = "L"
        sp["lanelets"][1]["signs"] = [10, 11]; sp["lanelets"][2]["signs"] = [10, 11]
        sp["lanelets"][1]["signs_shared"] = "S"; sp["lanelets"][2]["signs_shared"] = "S"
        sp["lanelets"][1]["stop_line"]["sign_ref"] = [10]
        sp["lanelets"][2]["stop_line"]["light_ref"] = [12]

    def stopline_refs_none(sp):
        # stop lines as the constructor makes them by default: sign references given, light references None (2) and the other way round (3)
        sp["lanelets"][1]["stop_line"]["light_ref"] = None
        sp["lanelets"][1]["lights"] = []
        sp["lanelets"][2]["stop_line"]["sign_ref"] = None
        sp["lanelets"][2]["stop_line"]["light_ref"] = [13]
        sp["lanelets"][2]["lights"] = [13]

    def incoming_id_zero(sp):
        # 0 is a valid id: the first incoming element carries it and the second one names it as its left neighbour
        sp["intersections"][0]["incomings"][0]["id"] = 0
        sp["intersections"][0]["incomings"][1]["left_of"] = 0
        sp["intersections"][0]["incomings"][1]["left_of_set_later"] = True       # assigned through the setter (as a file reader does)

    def untyped_lanelets(sp):
        # lanelets constructed without a lanelet type (the constructor default: an empty set): 1 and 4
        sp["lanelets"][0]["types"] = []; sp["lanelets"][3]["types"] = []

    def lanelet_id_zero(sp):
        # 0 is a valid lanelet id: lanelet 5 (right neighbour of 2, successor of an incoming, crossing) carries it
        def ren(v):
            return 0 if v == 5 else v
        for l in sp["lanelets"]:
            if l["id"] == 5:
                l["id"] = 0
            for k_ in ("pred", "succ"):
                if k_ in l:
                    l[k_] = [ren(x) for x in l[k_]]
            for k_ in ("adj_left", "adj_right"):
                if l.get(k_):
                    l[k_] = [ren(l[k_][0]), l[k_][1]]
        for it in sp["intersections"]:
            it["crossings"] = [ren(x) for x in it.get("crossings", [])]
            for inc in it["incomings"]:
                for k_ in ("lanelets", "right", "straight", "left"):
                    inc[k_] = [ren(x) for x in inc.get(k_, [])]

    def two_incoming_lanelets(sp):
        sp["intersections"][0]["incomings"][0]["lanelets"] = [1, 2]
        sp["intersections"][0]["incomings"][0]["left"] = [4]
    return [("diamond", diamond), ("sixth-lanelet", sixth), ("adjacency-flip", adj_flip), ("sign-on-all", sign_all), ("second-intersection", second_intersection),
            ("light-shared", light_shared), ("incoming-two-lanelets", two_incoming_lanelets), ("stopline-light-subset", stopline_light_subset), ("one-sided-links", one_sided_links), ("signs-without-first-occurrence", signs_without_first_occurrence),
            ("shared-reference-sets", shared_reference_sets), ("stopline-refs-none", stopline_refs_none), ("incoming-id-zero", incoming_id_zero), ("untyped-lanelets", untyped_lanelets), ("lanelet-id-zero", lanelet_id_zero)]


def variant(names):
    sp = base_network()
    devs = dict(deviations())
    for n in names:
        devs[n](sp)
    return sp


def build_net(names):
    return spec.mk_network(variant(names))


def build_scenario(names):
    from commonroad.scenario.scenario import Scenario, ScenarioID
    sc = Scenario(0.1, ScenarioID())
    sc.add_objects(build_net(names))
    return sc


# --------------------------------------------------------------------------- model: pure functions on snap.network(...)

def m_strip(s):
    """only what the statement speaks about + content fingerprints"""
    s = copy.deepcopy(s)
    for sg in s["signs"].values():
        sg.pop("first_occurrence", None)
    for it in s["intersections"].values():
        # 'left_of' is not among the reference kinds the statement lists (it may keep naming an incoming element that is gone), but it is content of
        # the incoming element: while the element it names is still there, it is unchanged
        there = {inc["id"] for inc in it["incomings"]}
        for inc in it["incomings"]:
            if inc.get("left_of") is not None and inc["left_of"] not in there:
                inc["left_of"] = "names-an-element-that-is-gone"
    for t in s["lights"].values():
        t.pop("color", None)
    return s


def m_remove_lanelet(s, lid):
    s = copy.deepcopy(s)
    s["lanelets"].pop(lid, None)
    for l in s["lanelets"].values():
        l["pred"] = [x for x in l["pred"] if x != lid]
        l["succ"] = [x for x in l["succ"] if x != lid]
        if l["adj_left"] == lid:
            l["adj_left"], l["adj_left_same"] = None, None
        if l["adj_right"] == lid:
            l["adj_right"], l["adj_right_same"] = None, None
    for it in s["intersections"].values():
        for inc in it["incomings"]:
            for k in ("lanelets", "right", "straight", "left"):
                inc[k] = [x for x in inc[k] if x != lid]
        it["crossings"] = [x for x in it["crossings"] if x != lid]
    return s


def m_remove_sign(s, sid):
    s = copy.deepcopy(s)
    s["signs"].pop(sid, None)
    for l in s["lanelets"].values():
        l["signs"] = [x for x in l["signs"] if x != sid]
        if l["stop_line"] and l["stop_line"]["sign_ref"] is not None:
            l["stop_line"]["sign_ref"] = [x for x in l["stop_line"]["sign_ref"] if x != sid]
    return s


def m_remove_light(s, tid):
    s = copy.deepcopy(s)
    s["lights"].pop(tid, None)
    for l in s["lanelets"].values():
        l["lights"] = [x for x in l["lights"] if x != tid]
        if l["stop_line"] and l["stop_line"]["light_ref"] is not None:
            l["stop_line"]["light_ref"] = [x for x in l["stop_line"]["light_ref"] if x != tid]
    return s


def m_remove_intersection(s, iid):
    s = copy.deepcopy(s)
    s["intersections"].pop(iid, None)
    return s


def m_apply(s, op):
    k = op[0]
    if k == "net_rm_lanelet":
        return m_remove_lanelet(s, op[1])
    if k in ("net_rm_sign", "sc_rm_sign"):
        return m_remove_sign(s, op[1])
    if k in ("net_rm_light", "sc_rm_light"):
        return m_remove_light(s, op[1])
    if k in ("net_rm_intersection", "sc_rm_intersection"):
        return m_remove_intersection(s, op[1])
    if k in ("sc_rm_sign_list", "sc_rm_light_list", "sc_rm_intersection_list"):
        for x in op[1]:
            s = {"sc_rm_sign_list": m_remove_sign, "sc_rm_light_list": m_remove_light, "sc_rm_intersection_list": m_remove_intersection}[k](s, x)
        return s
    if k == "sc_rm_absent_lanelet":
        return s
    if k == "sc_rm_absent_lanelet_list":
        return m_apply(s, ["sc_rm_lanelet", op[1][1], op[2]])
    if k in ("sc_rm_lanelet", "sc_rm_lanelet_list"):
        ids = [op[1]] if k == "sc_rm_lanelet" else list(op[1])
        if op[2]:
            keep_s, keep_t, del_s, del_t = set(), set(), set(), set()
            for lid, l in s["lanelets"].items():
                (del_s if lid in ids else keep_s).update(l["signs"]); (del_t if lid in ids else keep_t).update(l["lights"])
            for sid in sorted(del_s - keep_s):
                if sid in s["signs"]:
                    s = m_remove_sign(s, sid)
            for tid in sorted(del_t - keep_t):
                if tid in s["lights"]:
                    s = m_remove_light(s, tid)
        for lid in ids:
            s = m_remove_lanelet(s, lid)
        return s
    raise KeyError(k)


def dangling(s):
    """independent referential-integrity scan of a snapshot -> list of (attribute kind, id)"""
    L, S, T = set(s["lanelets"]), set(s["signs"]), set(s["lights"])
    out = []
    for lid, l in s["lanelets"].items():
        for k in ("pred", "succ"):
            out += [(f"lanelet.{k}", x) for x in l[k] if x not in L]
        for k in ("adj_left", "adj_right"):
            if l[k] is not None and l[k] not in L:
                out.append((f"lanelet.{k}", l[k]))
        out += [("lanelet.signs", x) for x in l["signs"] if x not in S]
        out += [("lanelet.lights", x) for x in l["lights"] if x not in T]
        if l["stop_line"]:
            out += [("stop_line.sign_ref", x) for x in (l["stop_line"]["sign_ref"] or []) if x not in S]
            out += [("stop_line.light_ref", x) for x in (l["stop_line"]["light_ref"] or []) if x not in T]
    for it in s["intersections"].values():
        for inc in it["incomings"]:
            for k in ("lanelets", "right", "straight", "left"):
                out += [(f"incoming.{k}", x) for x in inc[k] if x not in L]
        out += [("intersection.crossings", x) for x in it["crossings"] if x not in L]
    return out


def enabled_for(level):
    def enabled(model):
        s = model
        ops = []
        lids, sids, tids, iids = sorted(s["lanelets"]), sorted(s["signs"]), sorted(s["lights"]), sorted(s["intersections"])
        if level == "net":
            ops += [["net_rm_lanelet", i] for i in lids] + [["net_rm_sign", i] for i in sids] + [["net_rm_light", i] for i in tids]
            ops += [["net_rm_intersection", i] for i in iids]
        else:
            for i in lids:
                ops.append(["sc_rm_lanelet", i, True]); ops.append(["sc_rm_lanelet", i, False])
            for a, b in itertools.combinations(lids, 2):
                if (a + b) % 2:          # half of the pairs in list form
                    ops.append(["sc_rm_lanelet_list", [a, b], True])
                else:
                    ops.append(["sc_rm_lanelet_list", [a, b], False])
            ops += [["sc_rm_sign", i] for i in sids] + [["sc_rm_light", i] for i in tids] + [["sc_rm_intersection", i] for i in iids]
            if len(sids) >= 2:
                ops.append(["sc_rm_sign_list", sids[:2]])
            if len(tids) >= 2:
                ops.append(["sc_rm_light_list", tids[:2]])
                ops.append(["sc_rm_light_list", [tids[0], tids[0], tids[1]]])      # the same light collected twice (from two lanelets), then another one
            if len(sids) >= 2:
                ops.append(["sc_rm_sign_list", [sids[0], sids[0], sids[1]]])
            if iids:
                ops.append(["sc_rm_intersection_list", iids[:2]])
            # removing a lanelet that is no longer (or never was) in the scenario selects nothing for removal: everything stays as it is -
            # also the signs and lights that only the absent lanelet refers to
            for i in (1, 2, 3, 4, 5):
                if i not in s["lanelets"]:
                    ops.append(["sc_rm_absent_lanelet", i, True])
                    if lids:
                        ops.append(["sc_rm_absent_lanelet_list", [i, lids[0]], True])
        return ops
    return enabled


def real_apply(live, op):
    k = op[0]
    net = live if not hasattr(live, "lanelet_network") else live.lanelet_network
    if k == "net_rm_lanelet":
        return net.remove_lanelet(op[1])
    if k == "net_rm_sign":
        return net.remove_traffic_sign(op[1])
    if k == "net_rm_light":
        return net.remove_traffic_light(op[1])
    if k == "net_rm_intersection":
        return net.remove_intersection(op[1])
    sc = live
    if k == "sc_rm_lanelet":
        return sc.remove_lanelet(net.find_lanelet_by_id(op[1]), op[2])
    if k == "sc_rm_lanelet_list":
        return sc.remove_lanelet([net.find_lanelet_by_id(i) for i in op[1]], op[2])
    if k in ("sc_rm_absent_lanelet", "sc_rm_absent_lanelet_list"):
        absent = spec.mk_lanelet(next(l for l in base_network()["lanelets"] if l["id"] == (op[1] if k == "sc_rm_absent_lanelet" else op[1][0])))
        return sc.remove_lanelet(absent if k == "sc_rm_absent_lanelet" else [absent, net.find_lanelet_by_id(op[1][1])], op[2])
    if k == "sc_rm_sign":
        return sc.remove_traffic_sign(net.find_traffic_sign_by_id(op[1]))
    if k == "sc_rm_sign_list":
        return sc.remove_traffic_sign([net.find_traffic_sign_by_id(i) for i in op[1]])
    if k == "sc_rm_light":
        return sc.remove_traffic_light(net.find_traffic_light_by_id(op[1]))
    if k == "sc_rm_light_list":
        return sc.remove_traffic_light([net.find_traffic_light_by_id(i) for i in op[1]])
    if k == "sc_rm_intersection":
        return sc.remove_intersection(net.find_intersection_by_id(op[1]))
    if k == "sc_rm_intersection_list":
        return sc.remove_intersection([net.find_intersection_by_id(i) for i in op[1]])
    raise KeyError(k)


def real_snapshot(live):
    net = live if not hasattr(live, "lanelet_network") else live.lanelet_network
    return m_strip(snap.network(net))


def step(live, model, op):
    model2 = m_apply(model, op)
    try:
        # a user inspects the derived lookups between the removals (whatever they cache is filled when the next removal happens)
        net = live if not hasattr(live, "lanelet_network") else live.lanelet_network
        for inter in net.intersections:
            inter.map_incoming_lanelets
        net.map_inc_lanelets_to_intersections
        real_apply(live, op)
        obs = ("ok", None)
    except Exception as e:
        obs = ("raises:" + type(e).__name__, str(e)[:200])
    return obs, model2


def opname(op):
    n = op[0]
    if n.startswith("sc_rm_lanelet") or n.startswith("sc_rm_absent"):
        n += "[refs]" if op[2] else "[norefs]"
    return n


def check(live, model, model2, op, obs, pre):
    out = []
    if obs[0] != "ok":
        out.append((f"C10|{opname(op)}|{obs[0]}", f"{op}: {obs[1]}"))
        return out
    got = real_snapshot(live)
    for kind, ident in dangling(got):
        out.append((f"C10|{opname(op)}|dangling:{kind}", f"{op}: {kind} still refers to removed id {ident}"))
    # the public lookups derived from the incoming sets (read in every state, so whatever they cache is filled before the next removal)
    net = live if not hasattr(live, "lanelet_network") else live.lanelet_network
    try:
        present = {l.lanelet_id for l in net.lanelets}
        for inter in net.intersections:
            exp_map = {lid: inc.incoming_id for inc in inter.incomings for lid in inc.incoming_lanelets}
            got_map = {lid: inc.incoming_id for lid, inc in inter.map_incoming_lanelets.items()}
            if got_map != exp_map or set(got_map) - present:
                out.append((f"C10|{opname(op)}|lookup:Intersection.map_incoming_lanelets|disagrees-with-incomings",
                            f"{op}: intersection {inter.intersection_id}: lookup {got_map}, incoming sets give {exp_map}, lanelets present {sorted(present)}"))
        exp_net = {lid: inter.intersection_id for inter in net.intersections for inc in inter.incomings for lid in inc.incoming_lanelets}
        got_net = {lid: inter.intersection_id for lid, inter in net.map_inc_lanelets_to_intersections.items()}
        if got_net != exp_net:
            out.append((f"C10|{opname(op)}|lookup:LaneletNetwork.map_inc_lanelets_to_intersections|disagrees-with-incomings", f"{op}: lookup {got_net}, incoming sets give {exp_net}"))
    except Exception as e:
        out.append((f"C10|{opname(op)}|lookup|raises:{type(e).__name__}", repr(e)))
    for path, kind, detail in snap.diff(model2, got, tol_point=0.0, angle_mod=False):
        p = snap.strip_index(path)
        what = "element-lost" if kind == "dropped" and p.count(".") == 2 else ("lost-relation" if kind in ("length-changed", "altered", "dropped") else kind)
        if p.startswith(".signs") or p.startswith(".lights"):
            what = "sign-light-overremoved" if kind == "dropped" and p.count(".") == 2 else ("sign-light-not-removed" if kind == "added" and p.count(".") == 2 else "content-changed")
        elif kind == "added" and p.count(".") == 2:
            what = "element-not-removed"
        elif any(p.endswith(x) for x in ("left[]", "right[]", "center[]", "mark_left", "mark_right", "types", "users_one_way", "users_bidirectional")):
            what = "content-changed"
        out.append((f"C10|{opname(op)}|{what}:{p}", f"{op}: {path} {kind}: {detail}"))
    return out


# --------------------------------------------------------------------------- cut-outs (terminal operations)

CUT_SHAPES = [None, ["rect", 100.0, 40.0, 15.0, 1.5, 0], ["rect", 12.0, 8.0, 6.0, 1.5, 0], ["circle", 2.0, 25.0, 1.5], ["poly", [[11.0, 3.5], [19.0, 3.5], [19.0, 5.5], [11.0, 5.5]]],
              ["rect", 5.0, 3.0, 7.5, 1.5, 0], ["rect", 4.0, 4.0, 200.0, 200.0, 0]]
TYPE_SETS = [[], ["URBAN"], ["HIGHWAY"], ["BUS_LANE", "SIDEWALK"], ["URBAN", "HIGHWAY"], ["MAIN_CARRIAGE_WAY"], ["SIDEWALK"], ["URBAN", "HIGHWAY", "BUS_LANE", "SIDEWALK"],
             ["UNKNOWN"], ["UNKNOWN", "SIDEWALK"]]     # (a lanelet without any type is not of type UNKNOWN: excluding UNKNOWN keeps it)


def expected_cut(s, kept):
    """restriction of snapshot s to the kept lanelets (what must hold for everything that survives)"""
    r = copy.deepcopy(s)
    for lid in list(r["lanelets"]):
        if lid not in kept:
            r = m_remove_lanelet(r, lid)
    return r


def check_cutouts(live, model, hist, res, tier):
    from commonroad.scenario.lanelet import LaneletNetwork
    from commonroad.common.common_lanelet import LaneletType
    net = live if not hasattr(live, "lanelet_network") else live.lanelet_network
    src_before = snap.network(net)
    ids = sorted(model["lanelets"])
    for si, sh in enumerate(CUT_SHAPES):
        for ti, ts in enumerate(TYPE_SETS):
            if tier == "quick" and si and ti and (si + ti) % 3:
                continue
            case = {"history": hist, "cut": {"shape": sh, "exclude": ts}}
            res.evals += 1; res.transitions += 1
            hit, und = (ids, []) if sh is None else netgeo.lanelets_hit_by(sh, ids, TABLE)
            if und:
                res.guarded += 1
                continue
            kept = [i for i in hit if not (set(model["lanelets"][i]["types"]) & set(ts))]
            try:
                cut = LaneletNetwork.create_from_lanelet_network(net, None if sh is None else spec.mk_shape(sh), {LaneletType[t] for t in ts} if ts else None)
            except Exception as e:
                res.violation(f"C10|create_from_lanelet_network|raises:{type(e).__name__}", f"{case}: {e!r}", case)
                continue
            got = m_strip(snap.network(cut))
            if sorted(got["lanelets"]) != sorted(kept):
                res.violation(f"C10|create_from_lanelet_network|{'shape' if sh else 'types'}-cut|wrong-lanelet-set",
                              f"{case}: kept {sorted(got['lanelets'])} expected {sorted(kept)}", case)
                continue
            for kind, ident in dangling(got):
                res.violation(f"C10|create_from_lanelet_network|dangling:{kind}", f"{case}: {kind} refers to missing id {ident}", case)
            exp = expected_cut(model, kept)
            # lanelets: exact restriction
            for path, kind, detail in snap.diff(exp["lanelets"], got["lanelets"], tol_point=0.0, angle_mod=False):
                res.violation(f"C10|create_from_lanelet_network|lanelet:{snap.strip_index(path)}:{kind}", f"{case}: {path}: {detail}", case)
            # signs / lights referenced by kept lanelets must be present and unchanged; nothing else may appear changed
            for grp in ("signs", "lights"):
                need = set(x for l in exp["lanelets"].values() for x in l[grp])
                for x in need:
                    if x not in got[grp]:
                        res.violation(f"C10|create_from_lanelet_network|{grp[:-1]}-lost-though-referenced", f"{case}: {grp[:-1]} {x}", case)
                for x, v in got[grp].items():
                    if x in exp[grp] and list(snap.diff(exp[grp][x], v, tol_point=0.0, angle_mod=False)):
                        res.violation(f"C10|create_from_lanelet_network|{grp[:-1]}-content-changed", f"{case}: {grp[:-1]} {x}", case)
            # intersections: survivors are exact restrictions; relations between kept lanelets must survive
            for iid, it in exp["intersections"].items():
                g = got["intersections"].get(iid)
                for inc in it["incomings"]:
                    succ = inc["right"] + inc["straight"] + inc["left"]
                    ginc = None if g is None else next((x for x in g["incomings"] if x["id"] == inc["id"]), None)
                    if inc["lanelets"] and succ and ginc is None:
                        res.violation("C10|create_from_lanelet_network|lost-relation:incoming-between-kept-lanelets", f"{case}: incoming {inc['id']} of {iid}", case)
                    if ginc is not None and inc.get("left_of") is not None and inc["left_of"] not in {x["id"] for x in g["incomings"]}:
                        inc = dict(inc, left_of="names-an-element-that-is-gone")      # (its target did not survive the cut: not asserted, see m_strip)
                    if ginc is not None and ginc != inc:
                        res.violation("C10|create_from_lanelet_network|incoming-not-restriction-of-original", f"{case}: {ginc} expected {inc}", case)
                if g is not None and sorted(g["crossings"]) != sorted(it["crossings"]):
                    res.violation("C10|create_from_lanelet_network|crossings-not-restriction-of-original", f"{case}: {g['crossings']} expected {it['crossings']}", case)
            res.outcomes[f"cut:kept={len(kept)}"] += 1
    # create_from_lanelet_list
    for r in (1, 2):
        for sub in itertools.combinations(ids, r):
            case = {"history": hist, "list": list(sub)}
            res.evals += 1; res.transitions += 1
            try:
                nn = LaneletNetwork.create_from_lanelet_list([net.find_lanelet_by_id(i) for i in sub], cleanup_ids=True)
            except Exception as e:
                res.violation(f"C10|create_from_lanelet_list|raises:{type(e).__name__}", f"{case}: {e!r}", case)
                continue
            got = m_strip(snap.network(nn))
            for kind, ident in dangling(got):
                res.violation(f"C10|create_from_lanelet_list|dangling:{kind}", f"{case}: {kind} refers to missing id {ident}", case)
            exp = expected_cut(model, list(sub))
            for lid in sub:
                e, g = copy.deepcopy(exp["lanelets"][lid]), got["lanelets"].get(lid)
                if g is None:
                    res.violation("C10|create_from_lanelet_list|element-lost", f"{case}: {lid}", case); continue
                # sign/light references: the new network holds no signs or lights, so none may remain
                e["signs"], e["lights"] = [], []
                if e["stop_line"]:
                    e["stop_line"]["sign_ref"] = [] if e["stop_line"]["sign_ref"] is not None else None
                    e["stop_line"]["light_ref"] = [] if e["stop_line"]["light_ref"] is not None else None
                for path, kind, detail in snap.diff(e, g, tol_point=0.0, angle_mod=False):
                    res.violation(f"C10|create_from_lanelet_list|lanelet:{snap.strip_index(path)}:{kind}", f"{case}: {path}: {detail}", case)
    src_after = snap.network(net)
    if src_before != src_after:
        d = next(iter(snap.diff(src_before, src_after, tol_point=0.0, angle_mod=False)), None)
        res.violation("C10|cut-out|source-mutated", f"history {hist}: {d}", {"history": hist})


# --------------------------------------------------------------------------- units

def variants(tier):
    names = [n for n, _ in deviations()]
    out = [[]] + [[n] for n in names]
    if tier == "thorough":
        # (two deviations that hand the id 0 to two different elements cannot be combined: ids are unique within a scenario)
        out += [list(c) for c in itertools.combinations(names, 2) if set(c) != {"incoming-id-zero", "lanelet-id-zero"}]
        out = [v for v in out if _in_quantifier(v)]
    return out


def _in_quantifier(names):
    """the property quantifies over networks in which 'a stop line refers only to signs and lights its lanelet also references': combinations of
    deviations that leave this class are not enumerated"""
    if {"shared-reference-sets", "stopline-refs-none"} <= set(names):
        return False      # (both rewrite the references of lanelets 2 and 3; with the shared set object lanelet 3 lists light 12 while its stop line names 13)
    sp = variant(names)
    for l in sp["lanelets"]:
        sl = l.get("stop_line")
        if sl and (set(sl.get("sign_ref") or []) - set(l.get("signs", [])) or set(sl.get("light_ref") or []) - set(l.get("lights", []))):
            return False
    return True


def describe(tier):
    return {"base": "5 lanelets, 2 signs, 2 lights, 2 stop lines, 1 intersection (2 incomings, 1 crossing)", "deviations": [n for n, _ in deviations()],
            "k": 1 if tier == "quick" else 2, "depth": "3 (2 for the four reference-data deviations)" if tier == "quick" else "4 for k<=1, 2 for pairs", "levels": ["net", "scenario"], "cut_shapes": CUT_SHAPES, "type_sets": TYPE_SETS,
            "exhaustive": True}


def units(tier):
    u = []
    depth = 3 if tier == "quick" else 4
    for v in variants(tier):
        for level in ("net", "scenario"):
            # thorough: pairs of deviations at depth 2; quick: the four deviations that only alter reference data (not the graph) at depth 2
            d = 2 if (tier == "thorough" and len(v) == 2) else depth
            if tier == "quick" and v and v[0] in ("stopline-light-subset", "one-sided-links", "signs-without-first-occurrence", "shared-reference-sets", "stopline-refs-none", "incoming-id-zero", "untyped-lanelets"):
                d = 2
            live = build_net(v) if level == "net" else build_scenario(v)
            u.append({"variant": v, "level": level, "depth": 0, "first": None})
            for op in enabled_for(level)(real_snapshot(live)):
                u.append({"variant": v, "level": level, "depth": d, "first": op})
    return u


def run_unit(unit, tier):
    res = Result()
    names, level = unit["variant"], unit["level"]
    cut_depth = 1 if tier == "quick" else 2

    def start():
        live = build_net(names) if level == "net" else build_scenario(names)
        return live, real_snapshot(live)

    def canon(live, model):
        # called only after check() found the real snapshot equal to the model
        return json.dumps(model, sort_keys=True, default=str)
    seen_cut = set()

    def on_state(live, model, hist):
        k = json.dumps(model, sort_keys=True, default=str)
        if k not in seen_cut and len(hist) <= cut_depth:
            seen_cut.add(k)
            check_cutouts(live, model, hist, res, tier)
    live0, m0 = start()
    if unit["first"] is None:
        bad0 = dangling(m0)
        if bad0:
            raise RuntimeError(f"spec builder produced a network with dangling references: {bad0}")
        on_state(live0, m0, [])
        res.states += 1
    else:
        pre = None
        obs, m1 = step(live0, m0, unit["first"])
        res.transitions += 1; res.evals += 1
        bad = False
        for sig, detail in check(live0, m0, m1, unit["first"], obs, pre):
            res.violation(sig, detail, {"history": [unit["first"]]}); bad = True
        if not bad:
            on_state(live0, m1, [unit["first"]])
            info = bfs.search(start, enabled_for(level), step, canon, check, unit["depth"] - 1, res, on_state=on_state, prefix=[unit["first"]])
            res.extra["closed_shards"] = 1 if info["closed"] else 0
    res.violations = [(s, d, dict(c, variant=names, level=level)) for s, d, c in res.violations]
    res.samples = [dict(c, variant=names, level=level) for c in res.samples]
    return res


def replay(case):
    res = Result()
    names, level = case.get("variant", []), case.get("level", "net")
    live = build_net(names) if level == "net" else build_scenario(names)
    model = real_snapshot(live)
    out = []
    for op in case.get("history", []):
        obs, model2 = step(live, model, op)
        out += check(live, model, model2, op, obs, None)
        model = model2
    if "cut" in case or "list" in case or not case.get("history"):
        check_cutouts(live, model, case.get("history", []), res, "thorough")
    return out + [(s, d) for s, d, _ in res.violations]


def canaries():
    from commonroad.scenario import lanelet as ln, scenario as sc

    @contextlib.contextmanager
    def cleanup_skips_adj_right():
        o = ln.LaneletNetwork.cleanup_lanelet_references

        def bad(self):
            keep = {l.lanelet_id: (l._adj_right, l._adj_right_same_direction) for l in self.lanelets}
            o(self)
            for l in self.lanelets:
                l._adj_right, l._adj_right_same_direction = keep[l.lanelet_id]
        ln.LaneletNetwork.cleanup_lanelet_references = bad
        try:
            yield
        finally:
            ln.LaneletNetwork.cleanup_lanelet_references = o

    @contextlib.contextmanager
    def hanging_without_save_set():
        o = sc.Scenario.remove_hanging_lanelet_members

        def bad(self, remove_lanelet):
            signs = set().union(*[la.traffic_signs for la in remove_lanelet])
            lights = set().union(*[la.traffic_lights for la in remove_lanelet])
            self.remove_traffic_sign([self.lanelet_network.find_traffic_sign_by_id(i) for i in signs if self.lanelet_network.find_traffic_sign_by_id(i)])
            self.remove_traffic_light([self.lanelet_network.find_traffic_light_by_id(i) for i in lights if self.lanelet_network.find_traffic_light_by_id(i)])
        sc.Scenario.remove_hanging_lanelet_members = bad
        try:
            yield
        finally:
            sc.Scenario.remove_hanging_lanelet_members = o
    return [("cleanup_lanelet_references-skips-adj_right", cleanup_skips_adj_right), ("remove_hanging_lanelet_members-ignores-remaining-lanelets", hanging_without_save_set)]
