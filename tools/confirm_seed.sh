#!/bin/bash
# usage: tools/confirm_seed.sh <PROP> <k>   -- confirms /tmp/seedout/<PROP>/patch<k>.diff in scratch worktree /tmp/wt/<PROP>
# (demo passes unchanged, fails changed, pinned suite still 346 passed) and stores it as /verif/seeded/<PROP>_<k>/
set -u
P=$1; K=$2; WT=${SEED_WT:-/tmp/wt/$P}; SRC=${SEED_SRC:-/tmp/seedout}/$P; DST=/verif/seeded/${P}_${SEED_TAG:-}$K
[ -d $WT ] || git -C /repo worktree add -q --detach $WT HEAD
git -C $WT checkout -q --detach $(git -C /repo rev-parse HEAD) 2>/dev/null
git -C $WT checkout -- . ; 
cd $WT
PYTHONPATH=$WT timeout 600 /venv/bin/python $SRC/demo$K.py >/dev/null 2>&1; r0=$?
git apply $SRC/patch$K.diff || { echo "$P $K: patch does not apply on current HEAD"; exit 1; }
PYTHONPATH=$WT timeout 600 /venv/bin/python $SRC/demo$K.py >/dev/null 2>&1; r1=$?
PYTHONPATH=$WT /venv/bin/python -m pytest -q -p no:cacheprovider --timeout=900 tests 2>&1 | tail -1 > $SRC/pytest$K.txt
git checkout -- . ; rm -rf tests/.pytest_cache; find . -name __pycache__ -prune -exec rm -rf {} + 2>/dev/null
res=$(cat $SRC/pytest$K.txt)
echo "$P $K: demo unchanged rc=$r0, demo changed rc=$r1, suite: $res"
if [ $r0 -eq 0 ] && [ $r1 -ne 0 ] && echo "$res" | grep -q "346 passed"; then
  mkdir -p $DST; cp $SRC/patch$K.diff $DST/patch.diff; cp $SRC/demo$K.py $DST/demo.py
  /venv/bin/python - <<PY
import json
m=json.load(open("$SRC/meta$K.json"))
m["confirmed_by_us"]={"head":"$(git -C /repo rev-parse --short HEAD)","demo_unchanged_rc":$r0,"demo_changed_rc":$r1,"pinned_suite_with_change":"$res".strip()}
json.dump(m,open("$DST/meta.json","w"),indent=1)
PY
  echo "stored $DST"
else echo "NOT CONFIRMED $P $K"; fi
