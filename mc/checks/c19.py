"""C19 - rendering is total and shows the model at the selected time.  E2-dev (scenarios x flag menu x time windows) + E2-grid
(parameter propagation over the whole BaseParam tree, incl. all two-step assignment histories).

(a) totality: every scenario of the spec library at k<=1 with default parameters, and a set of rich scenarios x all time windows x
    every boolean draw flag found by introspection (k<=1 quick, k<=2 thorough) x draw_ids variants: draw + render on an Agg canvas
    must not raise.
(b) exact configuration (shape on; icons, signals, trajectory, extra occupancies, history off): the multiset of obstacle patches
    collected between draw and render equals the multiset computed from the model's occupancy_at_time answers; the lanelet fill
    collection holds exactly the polygons of all / the selected lanelets.
(c) propagation: every (group, field) of the parameter tree, on fresh trees and after every single prior assignment to a nested group.
"""
import contextlib
import copy
import dataclasses
import itertools
import os
import tempfile

from mc.core import Result
from mc import roundtrip, snap, spec, speclib

PROPERTY = "C19"
RULE = ("(a) all k<=1 specs x default parameters + rich scenarios x 6 time windows x all boolean flags (k<=1 quick / k<=2 thorough) x draw_ids variants; "
        "(b) rich scenarios x windows in the exact configuration; (c) all (group, field) pairs of the parameter tree x {fresh tree, after any single "
        "assignment to a nested group}. non-trivial = cases with a non-default parameter or window; distinct by construction")
ASSUMPTIONS = ["set-based occupancies at time_end itself are never generated (the loop is end-exclusive, the documentation says 'last time step')",
               "phantom obstacles: the begin-step occupancy is required, later steps accepted either way; obstacles with uncertain position take part in "
               "totality only (the renderer adds the region as an extra patch)", "matplotlib Agg backend; patches are read between draw and render"]

_FIG = None
WINDOWS = [(0, 200), (0, 3), (1, 4), (2, 2), (3, 6), (9, 12)]


def mpl_setup():
    import matplotlib
    matplotlib.use("Agg")
    import matplotlib.pyplot as plt
    return plt


# ------------------------------------------------------------------------------------ parameter tree introspection

def param_tree(root=None, path=()):
    """yields (path tuple, BaseParam object)"""
    from commonroad.visualization.draw_params import MPDrawParams, BaseParam
    root = root if root is not None else MPDrawParams()
    yield path, root
    for f in dataclasses.fields(root):
        v = getattr(root, f.name, None)
        if isinstance(v, BaseParam):
            yield from param_tree(v, path + (f.name,))


def get_group(root, path):
    o = root
    for p in path:
        o = getattr(o, p)
    return o


def bool_flags():
    """(path, field) of every boolean public field in the MPDrawParams tree"""
    out = []
    for path, g in param_tree():
        for f in dataclasses.fields(g):
            if f.name.startswith("_"):
                continue
            if isinstance(getattr(g, f.name), bool):
                out.append((list(path), f.name))
    return out


def alt_value(v):
    if isinstance(v, bool):
        return not v
    if isinstance(v, int):
        return v + 3
    if isinstance(v, float):
        return v + 0.25
    if isinstance(v, str):
        return "#123456" if v.startswith("#") or v in ("k", "red", "blue", "black", "g", "none") else v + "x"
    if v is None:
        return [1]
    if isinstance(v, list):
        return v + [1]
    if isinstance(v, dict):
        return dict(v, extra=1)
    return v


# ------------------------------------------------------------------------------------ scenarios

def rich_specs():
    from mc.checks.c18 import spec_variants
    V = spec_variants()
    out = {k: V[k] for k in ("base", "pm-trajectory", "custom-pm-trajectory", "uncertain-states", "defaults")}
    sp = speclib.base()
    # a set-based obstacle that appears later, a dynamic obstacle that starts at 2 and one without prediction
    sp["obstacles"].append({"role": "dynamic", "id": 40, "type": "TRUCK", "shape": ["rect", 8.0, 2.5, 0.0, 0.0, 0.0], "initial_state": spec.init_state(x=8.0, y=5.25, o=0.0, v=4.0, t=2),
                            "prediction": {"k": "trajectory", "t0": 3, "shape": ["rect", 8.0, 2.5, 0.0, 0.0, 0.0],
                                           "states": [speclib.ks(3, 9.0, 5.25, 0.0), speclib.ks(4, 10.0, 5.25, 0.0), speclib.ks(5, 11.0, 5.25, 0.0)]}})
    sp["obstacles"].append({"role": "dynamic", "id": 41, "type": "PEDESTRIAN", "shape": ["circle", 0.4, 0.0, 0.0], "initial_state": spec.init_state(x=3.0, y=6.0, o=1.5, v=1.0, t=1)})
    sp["obstacles"].append({"role": "dynamic", "id": 42, "type": "BUS", "shape": ["poly", [[-3.0, -1.0], [3.0, -1.0], [3.0, 1.0], [-3.0, 1.0]]], "initial_state": spec.init_state(x=30.0, y=2.0, o=0.1, v=2.0, t=3),
                            "prediction": {"k": "set", "t0": 4, "occ": [{"t": 4, "shape": ["rect", 6.0, 2.0, 31.0, 2.0, 0.1]}, {"t": 5, "shape": ["group", [["circle", 1.0, 32.0, 2.0], ["rect", 2.0, 1.0, 34.0, 2.0, 0.0]]]}]}})
    # static obstacles whose initial state carries a time step > 0 (they occupy their region at every time)
    sp["obstacles"].append({"role": "static", "id": 43, "type": "CONSTRUCTION_ZONE", "shape": ["rect", 3.0, 1.0, 0.0, 0.0, 0.0], "initial_state": spec.init_state(x=18.0, y=5.5, o=0.2, v=0.0, t=5)})
    sp["obstacles"].append({"role": "static", "id": 44, "type": "ROAD_BOUNDARY", "shape": ["circle", 0.6, 0.0, 0.0], "initial_state": spec.init_state(x=22.0, y=6.0, o=0.0, v=0.0, t=12)})
    # ... and a set-based obstacle whose occupancies are listed out of temporal order (steps 3..7, then 1, 2: the last listed occupancy is not the final one)
    sp["obstacles"].append({"role": "dynamic", "id": 45, "type": "CAR", "shape": ["rect", 2.0, 1.0, 0.0, 0.0, 0.0], "initial_state": spec.init_state(x=34.0, y=5.0, o=0.0, v=1.0, t=0),
                            "prediction": {"k": "set", "t0": 1, "occ": [{"t": t_, "shape": ["rect", 2.0, 1.0, 34.0 + t_, 5.0, 0.0]} for t_ in (3, 4, 5, 6, 7, 1, 2)]}})
    out["late-obstacles"] = sp
    # nothing static to draw besides the lanelet fill: no line markings, stop lines, signs, lights or labels; two moving obstacles
    sp = spec.minimal()
    sp["lanelets"] = [{"id": 1, "left": [[0.0, 3.5], [20.0, 3.5]], "right": [[0.0, 0.0], [20.0, 0.0]], "mark_left": "NO_MARKING", "mark_right": "NO_MARKING"}]
    sp["obstacles"] = [{"role": "dynamic", "id": 31, "type": "CAR", "shape": ["rect", 4.5, 2.0, 0.0, 0.0, 0.0], "initial_state": spec.init_state(x=2.5, y=1.75, o=0.0, v=8.0),
                        "prediction": {"k": "trajectory", "t0": 1, "shape": ["rect", 4.5, 2.0, 0.0, 0.0, 0.0],
                                       "states": [speclib.ks(t_, 2.5 + 2.0 * t_, 1.75, 0.0) for t_ in range(1, 6)]}},
                       {"role": "dynamic", "id": 32, "type": "BICYCLE", "shape": ["circle", 0.75, 0.0, 0.0], "initial_state": spec.init_state(x=15.0, y=1.0, o=3.0, v=2.0),
                        "prediction": {"k": "set", "t0": 1, "occ": [{"t": t_, "shape": ["circle", 0.75, 15.0 - t_, 1.0]} for t_ in range(1, 5)]}}]
    out["bare"] = sp
    # obstacles of every role whose INITIAL position is a region (the occupancy is then the region swept by the shape), with exact later states
    sp = speclib.base()
    speclib.find(sp, "obstacles", 30)["initial_state"]["attrs"]["position"] = ["circle", 0.5, 20.0, 5.5]
    speclib.find(sp, "obstacles", 31)["initial_state"]["attrs"]["position"] = ["rect", 1.0, 0.5, 12.5, 1.75, 0.0]
    speclib.find(sp, "obstacles", 32)["initial_state"]["attrs"]["position"] = ["poly", [[24.0, 1.0], [25.0, 1.0], [25.0, 2.0], [24.0, 2.0]]]
    out["uncertain-initial-positions"] = sp
    # signal states that carry only some of the (all optional) signals, a different subset at every time step
    sp = speclib.base()
    o = speclib.find(sp, "obstacles", 31)
    o["initial_signal_state"] = {"time_step": 0, "indicator_left": True}
    o["signal_series"] = [{"time_step": 1, "indicator_right": True}, {"time_step": 2, "indicator_left": False, "braking_lights": True}, {"time_step": 3, "hazard_warning_lights": False, "indicator_left": True},
                          {"time_step": 4, "horn": True}, {"time_step": 5, "flashing_blue_lights": True, "indicator_right": False}, {"time_step": 6, "hazard_warning_lights": True}]
    o = speclib.find(sp, "obstacles", 30)
    o["initial_signal_state"] = {"time_step": 0, "indicator_right": True}
    o["signal_series"] = [{"time_step": 1, "indicator_left": True}, {"time_step": 2, "braking_lights": True}, {"time_step": 3}]
    out["partial-signals"] = sp
    return out


def build(name, tmpdir):
    if name.startswith("file:"):
        import commonroad
        from commonroad.common.file_reader import CommonRoadFileReader
        return CommonRoadFileReader(os.path.join(os.path.dirname(os.path.dirname(commonroad.__file__)), "tests", "test_scenarios", name[5:])).open()
    return spec.build(rich_specs()[name])


RICH = ["base", "late-obstacles", "pm-trajectory", "custom-pm-trajectory", "uncertain-states", "uncertain-initial-positions", "partial-signals", "bare", "defaults", "file:test_reading_all.xml", "file:test_reading_intersection_traffic_sign.xml",
        "file:test_reading_complex_tl.xml"]
EXACT = ["base", "late-obstacles", "pm-trajectory", "defaults", "uncertain-states", "uncertain-initial-positions", "partial-signals", "bare"]


# ------------------------------------------------------------------------------------ (a) totality

def draw_and_render(sc, pps, params, what="scenario+pps"):
    plt = mpl_setup()
    from commonroad.visualization.mp_renderer import MPRenderer
    global _FIG
    if _FIG is None:
        _FIG = plt.figure(figsize=(4, 3))
    fig = _FIG
    fig.clf()
    try:
        rnd = MPRenderer(ax=fig.add_subplot(111))
        sc.draw(rnd, params)
        if pps is not None:
            pps.draw(rnd, params)
        patches = list(rnd.obstacle_patches)
        colls = list(rnd.static_collections)
        rnd.render()
        return patches, colls
    finally:
        fig.clf()


def set_params(settings):
    from commonroad.visualization.draw_params import MPDrawParams
    p = MPDrawParams()
    for path, field, value in settings:
        setattr(get_group(p, path), field, value)
    return p


def total_case(name, settings, window, res, tmpdir, tag):
    case = {"k": "total", "scenario": name, "settings": [[list(a), b, c] for a, b, c in settings], "window": list(window)}
    res.evals += 1; res.transitions += 1
    if settings or window != (0, 200):
        res.nontrivial += 1
    try:
        sc, pps = build(name, tmpdir)
        p = set_params(list(settings) + [([], "time_begin", window[0]), ([], "time_end", window[1])])
    except Exception as e:
        res.violation(f"C19|set-parameters|raises:{type(e).__name__}", f"{case}: {e!r}", case)
        return
    try:
        draw_and_render(sc, pps, p)
    except Exception as e:
        import traceback
        tb = traceback.extract_tb(e.__traceback__)
        fn = next((f.name for f in reversed(tb) if "mp_renderer" in f.filename or "visualization" in f.filename), tb[-1].name)
        flag = "+".join(f"{'.'.join(a)}.{b}" for a, b, c in settings) or "default"
        wc = "window-default" if window == (0, 200) else "window-set"
        res.violation(f"C19|{fn}|{wc}|flag:{flag}|raises:{type(e).__name__}", f"{case}: {e!r}", case)
    res.outcomes[tag] += 1


# ------------------------------------------------------------------------------------ (b) exact configuration

def canon_poly(xy):
    pts = [(round(float(x), 9), round(float(y), 9)) for x, y in xy]
    if len(pts) > 1 and pts[0] == pts[-1]:
        pts = pts[:-1]
    i = pts.index(min(pts))
    return ("poly",) + tuple(pts[i:] + pts[:i])


def patch_key(p):
    import matplotlib.patches as mp
    if isinstance(p, mp.Ellipse):
        return ("ellipse", round(float(p.center[0]), 9), round(float(p.center[1]), 9), round(float(p.width), 9), round(float(p.height), 9))
    if isinstance(p, mp.Polygon):
        return canon_poly(p.get_xy())
    return (type(p).__name__,)


def shape_keys(shape):
    from commonroad.geometry.shape import Rectangle, Circle, Polygon, ShapeGroup
    if isinstance(shape, ShapeGroup):
        out = []
        for s in shape.shapes:
            out += shape_keys(s)
        return out
    if isinstance(shape, Circle):
        return [("ellipse", round(float(shape.center[0]), 9), round(float(shape.center[1]), 9), round(2 * float(shape.radius), 9), round(2 * float(shape.radius), 9))]
    return [canon_poly(shape.vertices)]


def expected_patches(sc, window):
    """(required multiset, optional multiset) from the model"""
    from commonroad.prediction.prediction import SetBasedPrediction
    b, e = window
    req, opt = [], []
    for o in sc.obstacles:
        role = o.obstacle_role.name.upper()
        occ = o.occupancy_at_time(b)
        if occ is not None:
            req += shape_keys(occ.shape)
        if role == "DYNAMIC" and isinstance(o.prediction, SetBasedPrediction) and occ is not None or (role == "DYNAMIC" and isinstance(o.prediction, SetBasedPrediction)):
            for t in range(b + 1, e):
                oc = o.occupancy_at_time(t)
                if oc is not None:
                    req += shape_keys(oc.shape)
        # a state whose position is a region: the region itself may be drawn in addition to (never instead of) the occupancy
        from commonroad.geometry.shape import Shape
        sts = ([o.initial_state] if hasattr(o, "initial_state") else []) + ([] if getattr(o, "prediction", None) is None or not hasattr(o.prediction, "trajectory") else list(o.prediction.trajectory.state_list))
        for st in sts:
            if isinstance(getattr(st, "position", None), Shape):
                opt += shape_keys(st.position) * 4
        if role == "PHANTOM":
            for t in range(b + 1, e):
                oc = o.occupancy_at_time(t)
                if oc is not None:
                    opt += shape_keys(oc.shape)
    return req, opt


def exact_settings():
    return [(["dynamic_obstacle"], "draw_shape", True), (["dynamic_obstacle"], "draw_icon", False), (["dynamic_obstacle"], "draw_signals", False),
            (["dynamic_obstacle", "trajectory"], "draw_trajectory", False), (["dynamic_obstacle", "occupancy"], "draw_occupancies", False),
            (["dynamic_obstacle", "history"], "draw_history", False), (["dynamic_obstacle"], "draw_direction", False), (["dynamic_obstacle"], "draw_initial_state", False),
            (["phantom_obstacle"], "draw_signals", False)]


def exact_case(name, window, draw_ids, res, tmpdir, via_file=False):
    import collections
    case = {"k": "exact", "scenario": name, "window": list(window), "draw_ids": draw_ids}
    res.evals += 1; res.transitions += 1; res.nontrivial += 1
    sc, pps = build(name, tmpdir)
    settings = exact_settings() + [([], "time_begin", window[0]), ([], "time_end", window[1])]
    lids = sorted(l.lanelet_id for l in sc.lanelet_network.lanelets)
    sel = {"None": None, "[]": [], "[one]": lids[:1], "[all]": lids}[draw_ids]
    settings.append((["lanelet_network"], "draw_ids", sel))
    try:
        p = set_params(settings)
        if via_file:
            # the same parameters after a round trip through a parameter file (save / load): they select the same things
            from commonroad.visualization.draw_params import MPDrawParams
            fn_ = os.path.join(tmpdir, f"params_{os.getpid()}.yaml")
            p.save(fn_)
            p = MPDrawParams.load(fn_)
            case["params"] = "saved-and-loaded"
        patches, colls = draw_and_render(sc, None, p)
    except Exception as e:
        res.violation(f"C19|exact-configuration|raises:{type(e).__name__}", f"{case}: {e!r}", case)
        return
    wclass = "begin=0" if window[0] == 0 else ("begin-inside" if window[0] <= 3 else "begin-after-horizon")
    got = collections.Counter(patch_key(x) for x in patches)
    req, opt = expected_patches(sc, window)
    req, opt = collections.Counter(req), collections.Counter(opt)
    missing = req - got
    extra = got - req - opt
    if missing:
        k = next(iter(missing))
        res.violation(f"C19|exact-configuration|{wclass}|missing-patch:{k[0]}", f"{case}: model reports an occupancy that is not drawn: {k[:4]}... ({sum(missing.values())} missing)", case)
    if extra:
        k = next(iter(extra))
        res.violation(f"C19|exact-configuration|{wclass}|extra-patch:{k[0]}", f"{case}: drawn but not reported by the model at this time: {k[:4]}... ({sum(extra.values())} extra)", case)
    # lanelets
    import matplotlib.collections as mc
    want = sorted(canon_poly(list(l.right_vertices) + list(l.left_vertices)[::-1]) for l in sc.lanelet_network.lanelets if sel is None or l.lanelet_id in sel)
    fills = []
    for c in colls:
        if isinstance(c, mc.PolyCollection):
            for path in c.get_paths():
                fills.append(canon_poly(path.vertices))
    # the fill collection may be accompanied by other PolyCollections (e.g. direction triangles); every wanted polygon must be there,
    # and no polygon of an unselected lanelet
    unsel = set(canon_poly(list(l.right_vertices) + list(l.left_vertices)[::-1]) for l in sc.lanelet_network.lanelets if sel is not None and l.lanelet_id not in sel)
    if any(w not in fills for w in want):
        res.violation(f"C19|draw_lanelet_network|draw_ids:{draw_ids}|lanelet-not-drawn", f"{case}: {sum(1 for w in want if w not in fills)} selected lanelets missing from the fill collection", case)
    if any(f in unsel for f in fills):
        res.violation(f"C19|draw_lanelet_network|draw_ids:{draw_ids}|lanelet-filter-ignored", f"{case}: unselected lanelets are drawn", case)
    res.outcomes[f"exact:{wclass}"] += 1


def two_renderers_case(name, w1, w2, res, tmpdir):
    """two renderers (two axes of one figure), the scenario drawn into the first with window w1 and into the second with window w2 before either
    is rendered: each renderer holds exactly the shapes of its own window"""
    import collections
    plt = mpl_setup()
    from commonroad.visualization.mp_renderer import MPRenderer
    global _FIG
    if _FIG is None:
        _FIG = plt.figure(figsize=(4, 3))
    case = {"k": "two-renderers", "scenario": name, "w1": list(w1), "w2": list(w2)}
    res.evals += 1; res.transitions += 2; res.nontrivial += 1
    sc, pps = build(name, tmpdir)
    _FIG.clf()
    try:
        r1, r2 = MPRenderer(ax=_FIG.add_subplot(121)), MPRenderer(ax=_FIG.add_subplot(122))
        sc.draw(r1, set_params(exact_settings() + [([], "time_begin", w1[0]), ([], "time_end", w1[1])]))
        sc.draw(r2, set_params(exact_settings() + [([], "time_begin", w2[0]), ([], "time_end", w2[1])]))
        got = [collections.Counter(patch_key(x) for x in r.obstacle_patches) for r in (r1, r2)]
        r1.render(); r2.render()
    except Exception as e:
        res.violation(f"C19|two-renderers|raises:{type(e).__name__}", f"{case}: {e!r}", case)
        return
    finally:
        _FIG.clf()
    for which, g, w in (("first", got[0], w1), ("second", got[1], w2)):
        req, opt = expected_patches(sc, w)
        req, opt = collections.Counter(req), collections.Counter(opt)
        if req - g:
            res.violation(f"C19|two-renderers|{which}-renderer:missing-patch", f"{case}: {sum((req - g).values())} occupancies of its window are not in the {which} renderer", case)
        if g - req - opt:
            res.violation(f"C19|two-renderers|{which}-renderer:extra-patch", f"{case}: {sum((g - req - opt).values())} shapes in the {which} renderer that the model does not report for its window", case)
    res.outcomes["two-renderers"] += 1


def frames_case(name, w1, w2, keep, res, tmpdir):
    """two frames on ONE renderer (how videos are made): frame 1 with window w1 is drawn and rendered, then frame 2 with window w2 is drawn;
    the obstacle shapes buffered for frame 2 must be exactly the model at w2 (nothing left over from frame 1)"""
    import collections
    plt = mpl_setup()
    from commonroad.visualization.mp_renderer import MPRenderer
    global _FIG
    if _FIG is None:
        _FIG = plt.figure(figsize=(4, 3))
    case = {"k": "frames", "scenario": name, "w1": list(w1), "w2": list(w2), "keep_static_artists": keep}
    res.evals += 1; res.transitions += 2; res.nontrivial += 1
    sc, pps = build(name, tmpdir)
    _FIG.clf()
    try:
        rnd = MPRenderer(ax=_FIG.add_subplot(111))
        sc.draw(rnd, set_params(exact_settings() + [([], "time_begin", w1[0]), ([], "time_end", w1[1])]))
        rnd.render(keep_static_artists=keep)
        p2 = set_params(exact_settings() + [([], "time_begin", w2[0]), ([], "time_end", w2[1])])
        for o in sc.obstacles:
            o.draw(rnd, p2)
        patches = list(rnd.obstacle_patches)
        rnd.render(keep_static_artists=keep)
        # what the axes show after the second frame was rendered: the patch collections on the axes hold exactly the shapes buffered for that frame
        import matplotlib.collections as _mc
        on_axes = sum(len(c.get_paths()) for c in rnd.ax.collections if type(c) is _mc.PatchCollection)
    except Exception as e:
        res.violation(f"C19|two-frames|keep_static_artists={keep}|raises:{type(e).__name__}", f"{case}: {e!r}", case)
        return
    finally:
        _FIG.clf()
    got = collections.Counter(patch_key(x) for x in patches)
    req, opt = expected_patches(sc, w2)
    req, opt = collections.Counter(req), collections.Counter(opt)
    missing, extra = req - got, got - req - opt
    if missing:
        res.violation(f"C19|two-frames|keep_static_artists={keep}|second-frame:missing-patch", f"{case}: {sum(missing.values())} occupancies of the second frame are not drawn", case)
    if on_axes != len(patches):
        res.violation(f"C19|two-frames|keep_static_artists={keep}|axes-show-{'more' if on_axes > len(patches) else 'fewer'}-shapes-than-the-second-frame",
                      f"{case}: {on_axes} shapes in the patch collections on the axes, {len(patches)} buffered for the second frame", case)
    if extra:
        res.violation(f"C19|two-frames|keep_static_artists={keep}|second-frame:extra-patch", f"{case}: {sum(extra.values())} shapes drawn that the model does not report at the second frame's time", case)
    res.outcomes["two-frames"] += 1


# ------------------------------------------------------------------------------------ (c) propagation

def declaring(root, path, field):
    """paths of nested groups (strictly below path) that declare field"""
    out = []
    for p, g in param_tree(get_group(root, path), tuple(path)):
        if p != tuple(path) and field in {f.name for f in dataclasses.fields(g)}:
            out.append(p)
    return out


def tree_values(root):
    d = {}
    for p, g in param_tree(root):
        for f in dataclasses.fields(g):
            if not f.name.startswith("_"):
                v = getattr(g, f.name)
                from commonroad.visualization.draw_params import BaseParam
                if not isinstance(v, BaseParam):
                    d[(p, f.name)] = copy.deepcopy(v)
    return d


def propagation(res, shard, of):
    from commonroad.visualization.draw_params import MPDrawParams
    groups = list(param_tree())
    idx = 0
    for path, g in groups:
        for f in dataclasses.fields(g):
            if f.name.startswith("_"):
                continue
            from commonroad.visualization.draw_params import BaseParam
            if isinstance(getattr(g, f.name), BaseParam):
                continue
            idx += 1
            if idx % of != shard:
                continue
            field = f.name
            # fresh tree
            for prior, how in [(None, "attr"), (None, "item"), (None, "attr-on-deepcopy"), (None, "attr-on-pickle")] + [(d, "attr") for d in declaring(MPDrawParams(), path, field)]:
                root = MPDrawParams()
                if how == "attr-on-deepcopy":
                    root = copy.deepcopy(root)          # parameter trees are copied around (one per frame, per thread): a copy behaves like the original
                elif how == "attr-on-pickle":
                    import pickle
                    root = pickle.loads(pickle.dumps(root))
                case = {"k": "propagation", "group": list(path), "field": field, "prior": None if prior is None else list(prior), "assignment": how}
                res.evals += 1; res.transitions += 1; res.nontrivial += 1
                try:
                    old = getattr(get_group(root, path), field)
                    new = alt_value(old)
                    if prior is not None:
                        # history: a nested group was set individually first, then the ancestor is set back to the value the tree had
                        setattr(get_group(root, prior), field, alt_value(getattr(get_group(root, prior), field)))
                        target = old
                    else:
                        target = new
                    before = tree_values(root)
                    if how == "item":
                        get_group(root, path)[field] = target        # params["time_begin"] = 5 is the documented alternative to params.time_begin = 5
                    else:
                        setattr(get_group(root, path), field, target)
                    after = tree_values(root)
                except Exception as e:
                    res.violation(f"C19|propagation|raises:{type(e).__name__}", f"{case}: {e!r}", case)
                    continue
                below = set(declaring(root, path, field))
                for (p, fl), v in after.items():
                    if fl == field and (p == tuple(path) or p in below):
                        if v != target:
                            depth = len(p) - len(path)
                            res.violation(f"C19|propagation|{('fresh' if how == 'attr' else 'fresh:' + {'item': 'item-assignment'}.get(how, how)) if prior is None else 'after-nested-assignment'}|not-propagated:depth={depth}",
                                          f"{case}: {'.'.join(p) or '<root>'}.{field} is {v!r}, expected {target!r}", case)
                    elif before[(p, fl)] != v:
                        res.violation(f"C19|propagation|unrelated-parameter-changed", f"{case}: {'.'.join(p)}.{fl} changed from {before[(p, fl)]!r} to {v!r}", case)
                res.outcomes["propagation-" + ("fresh" if prior is None else "history")] += 1


# ------------------------------------------------------------------------------------ units

def describe(tier):
    return {"general_menu_specs": len(speclib.menu("xml")), "rich_scenarios": RICH, "windows": WINDOWS, "boolean_flags": len(bool_flags()), "flag_k": 1 if tier == "quick" else 2,
            "parameter_groups": len(list(param_tree())), "exhaustive": True}


def units(tier):
    n = len(speclib.menu("xml"))
    u = [{"k": "menu", "lo": i, "hi": min(n, i + 40)} for i in range(0, n, 40)]
    flags = bool_flags()
    for name in RICH:
        for w in range(len(WINDOWS)):
            # quick: every flag on every rich scenario for the default window and one inner window; the other windows carry the full flag
            # sweep on the two scenarios with the richest time structure and the default parameters elsewhere
            full = tier == "thorough" or WINDOWS[w] in ((0, 200), (1, 4)) or name in ("base", "late-obstacles")
            for half in ((0, 1) if full else (0,)):
                u.append({"k": "flags1", "scenario": name, "window": w, "full": full, "half": half})
    # pairs of switches where the second lives in a sub-group of the first one's group (one switch enables a feature, the other configures it)
    for name in ("base", "file:test_reading_all.xml"):
        for sh in range(8):
            u.append({"k": "flags2-nested", "scenario": name, "shard": sh, "of": 8})
    if tier == "thorough":
        for name in ("base", "late-obstacles", "file:test_reading_all.xml"):
            for sh in range(32):
                u.append({"k": "flags2", "scenario": name, "shard": sh, "of": 32})
    for name in EXACT:
        u.append({"k": "exact", "scenario": name})
    for sh in range(8):
        u.append({"k": "propagation", "shard": sh, "of": 8})
    return u


def run_unit(unit, tier):
    res = Result()
    d = tempfile.mkdtemp(prefix="c19_")
    try:
        k = unit["k"]
        if k == "menu":
            M = speclib.menu("xml")
            base = speclib.base()
            from commonroad.visualization.draw_params import MPDrawParams
            for i in range(unit["lo"], unit["hi"]):
                sp = copy.deepcopy(base)
                if M[i][2](sp) is False:
                    continue
                case = {"k": "menu", "labels": [M[i][1]]}
                res.evals += 1; res.transitions += 1; res.states += 1
                try:
                    sc, pps = spec.build(sp)
                except Exception:
                    res.guarded += 1
                    continue
                try:
                    draw_and_render(sc, pps, MPDrawParams())
                except Exception as e:
                    import traceback
                    tb = traceback.extract_tb(e.__traceback__)
                    fn = next((f.name for f in reversed(tb) if "visualization" in f.filename), tb[-1].name)
                    res.violation(f"C19|{fn}|scenario-deviation|raises:{type(e).__name__}", f"{case}: {e!r}", case)
                res.sample(case, 2)
        elif k == "flags1":
            w = WINDOWS[unit["window"]]
            if unit.get("half", 0) == 0:
                total_case(unit["scenario"], [], w, res, d, "default")
            for fi, (path, field) in enumerate(bool_flags() if unit.get("full", True) else []):
                if fi % 2 != unit.get("half", 0):
                    continue
                cur = getattr(get_group(set_params([]), path), field)
                total_case(unit["scenario"], [(path, field, not cur)], w, res, d, "flag1")
            for ids in ((None, [], "one", "all") if unit.get("half", 0) == 0 else ()):
                sc, _ = build(unit["scenario"], d)
                lids = sorted(l.lanelet_id for l in sc.lanelet_network.lanelets)
                v = ids if not isinstance(ids, str) else (lids[:1] if ids == "one" else lids)
                total_case(unit["scenario"], [(["lanelet_network"], "draw_ids", v)], w, res, d, "draw_ids")
                total_case(unit["scenario"], [(["planning_problem_set"], "draw_ids", v if v is None else [100][:len(v)])], w, res, d, "pp_draw_ids")
            res.states += 1
            res.sample({"k": "flags1", "scenario": unit["scenario"], "window": list(w)}, 1)
        elif k == "flags2-nested":
            flags = bool_flags()
            idx = 0
            for (p1, f1) in flags:
                for (p2, f2) in flags:
                    if len(p2) > len(p1) and list(p2[:len(p1)]) == list(p1):
                        idx += 1
                        if idx % unit["of"] != unit["shard"]:
                            continue
                        c1 = getattr(get_group(set_params([]), p1), f1); c2 = getattr(get_group(set_params([]), p2), f2)
                        total_case(unit["scenario"], [(p1, f1, not c1), (p2, f2, not c2)], (1, 4), res, d, "flag2-nested")
            res.states += 1
        elif k == "flags2":
            flags = bool_flags()
            idx = 0
            for (p1, f1), (p2, f2) in itertools.combinations(flags, 2):
                idx += 1
                if idx % unit["of"] != unit["shard"]:
                    continue
                c1 = getattr(get_group(set_params([]), p1), f1); c2 = getattr(get_group(set_params([]), p2), f2)
                total_case(unit["scenario"], [(p1, f1, not c1), (p2, f2, not c2)], (1, 4), res, d, "flag2")
            res.states += 1
        elif k == "exact":
            for w in WINDOWS:
                for ids in ("None", "[]", "[one]", "[all]"):
                    exact_case(unit["scenario"], w, ids, res, d)
            for ids in ("None", "[]", "[one]", "[all]"):
                exact_case(unit["scenario"], WINDOWS[2], ids, res, d, via_file=True)
            two_renderers_case(unit["scenario"], WINDOWS[1], WINDOWS[4], res, d)
            for w1, w2 in ((WINDOWS[1], WINDOWS[2]), (WINDOWS[2], WINDOWS[1]), (WINDOWS[1], WINDOWS[5]), (WINDOWS[3], WINDOWS[4])):
                for keep in (False, True):
                    frames_case(unit["scenario"], w1, w2, keep, res, d)
            res.states += 1
            res.sample({"k": "exact", "scenario": unit["scenario"]}, 1)
        else:
            propagation(res, unit["shard"], unit["of"])
            res.states += 1
    finally:
        import shutil
        shutil.rmtree(d, ignore_errors=True)
    return res


def replay(case):
    res = Result()
    d = tempfile.mkdtemp(prefix="c19_")
    k = case["k"]
    if k == "total":
        total_case(case["scenario"], [(a, b, c) for a, b, c in case["settings"]], tuple(case["window"]), res, d, "replay")
    elif k == "exact":
        exact_case(case["scenario"], tuple(case["window"]), case["draw_ids"], res, d, via_file=case.get("params") == "saved-and-loaded")
    elif k == "two-renderers":
        two_renderers_case(case["scenario"], tuple(case["w1"]), tuple(case["w2"]), res, d)
    elif k == "frames":
        frames_case(case["scenario"], tuple(case["w1"]), tuple(case["w2"]), case["keep_static_artists"], res, d)
    elif k == "propagation":
        propagation(res, 0, 1)
    else:
        M = {m[1]: m for m in speclib.menu("xml")}
        sp = copy.deepcopy(speclib.base())
        for l in case["labels"]:
            M[l][2](sp)
        from commonroad.visualization.draw_params import MPDrawParams
        try:
            sc, pps = spec.build(sp)
            draw_and_render(sc, pps, MPDrawParams())
        except Exception as e:
            import traceback
            tb = traceback.extract_tb(e.__traceback__)
            fn = next((f.name for f in reversed(tb) if "visualization" in f.filename), tb[-1].name)
            res.violation(f"C19|{fn}|scenario-deviation|raises:{type(e).__name__}", repr(e), case)
    import shutil
    shutil.rmtree(d, ignore_errors=True)
    return [(s, dd) for s, dd, _ in res.violations]


def canaries():
    from commonroad.visualization import draw_params as dp, mp_renderer as mr

    @contextlib.contextmanager
    def propagate_one_level_only():
        o = dp.BaseParam.__setattr__

        def bad(self, name, value):
            if name in {f.name for f in dataclasses.fields(self)}:
                object.__setattr__(self, name, value)
            if getattr(self, "_BaseParam__initialized", False):
                for k, v in self.__dict__.items():
                    if isinstance(v, dp.BaseParam) and name in {f.name for f in dataclasses.fields(v)}:
                        object.__setattr__(v, name, value)
        dp.BaseParam.__setattr__ = bad
        try:
            yield
        finally:
            dp.BaseParam.__setattr__ = o

    @contextlib.contextmanager
    def static_obstacle_drawn_at_time_zero():
        o = mr.MPRenderer.draw_environment_obstacle

        def bad(self, obj, draw_params=None):
            return None
        mr.MPRenderer.draw_environment_obstacle = bad
        try:
            yield
        finally:
            mr.MPRenderer.draw_environment_obstacle = o
    return [("parameter-propagation-stops-after-one-level", propagate_one_level_only), ("environment-obstacles-not-drawn", static_obstacle_drawn_at_time_zero)]
