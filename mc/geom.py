"""Exact rational planar geometry used as independent oracle (C04, C06, C07, C08).
All inputs are converted with Fraction(float) (exact); results are exact for polygons/points given by floats."""
from fractions import Fraction as F


def fr(p):
    return (F(float(p[0])), F(float(p[1])))


def ring(vertices):
    """list of exact points; drops a repeated closing vertex"""
    pts = [fr(v) for v in vertices]
    if len(pts) > 1 and pts[0] == pts[-1]:
        pts = pts[:-1]
    return pts


def cross(o, a, b):
    return (a[0] - o[0]) * (b[1] - o[1]) - (a[1] - o[1]) * (b[0] - o[0])


def on_segment(p, a, b):
    return cross(a, b, p) == 0 and min(a[0], b[0]) <= p[0] <= max(a[0], b[0]) and min(a[1], b[1]) <= p[1] <= max(a[1], b[1])


def point_on_ring(p, R):
    return any(on_segment(p, R[i], R[(i + 1) % len(R)]) for i in range(len(R)))


def point_in_ring_strict(p, R):
    """strictly inside (boundary excluded); crossing number with exact arithmetic. R simple."""
    if point_on_ring(p, R):
        return False
    inside = False
    n = len(R)
    for i in range(n):
        a, b = R[i], R[(i + 1) % n]
        if (a[1] > p[1]) != (b[1] > p[1]):
            # x coordinate of the edge at height p.y
            x = a[0] + (p[1] - a[1]) * (b[0] - a[0]) / (b[1] - a[1])
            if x > p[0]:
                inside = not inside
    return inside


def point_in_ring_closed(p, R):
    return point_on_ring(p, R) or point_in_ring_strict(p, R)


def seg_intersect(a, b, c, d):
    """closed segments ab and cd share a point"""
    d1, d2, d3, d4 = cross(c, d, a), cross(c, d, b), cross(a, b, c), cross(a, b, d)
    if ((d1 > 0 and d2 < 0) or (d1 < 0 and d2 > 0)) and ((d3 > 0 and d4 < 0) or (d3 < 0 and d4 > 0)):
        return True
    return (d1 == 0 and on_segment(a, c, d)) or (d2 == 0 and on_segment(b, c, d)) or \
           (d3 == 0 and on_segment(c, a, b)) or (d4 == 0 and on_segment(d, a, b))


def rings_intersect(R, S):
    """closed polygons share a point"""
    for i in range(len(R)):
        for j in range(len(S)):
            if seg_intersect(R[i], R[(i + 1) % len(R)], S[j], S[(j + 1) % len(S)]):
                return True
    return point_in_ring_closed(R[0], S) or point_in_ring_closed(S[0], R)


def rings_touch_only(R, S):
    """they intersect but no interior point is shared: decided conservatively = they intersect and no vertex of one is
    strictly inside the other and no proper edge crossing exists (boundary contact only)"""
    if not rings_intersect(R, S):
        return False
    for i in range(len(R)):
        for j in range(len(S)):
            a, b, c, d = R[i], R[(i + 1) % len(R)], S[j], S[(j + 1) % len(S)]
            d1, d2, d3, d4 = cross(c, d, a), cross(c, d, b), cross(a, b, c), cross(a, b, d)
            if ((d1 > 0 and d2 < 0) or (d1 < 0 and d2 > 0)) and ((d3 > 0 and d4 < 0) or (d3 < 0 and d4 > 0)):
                return False
    if any(point_in_ring_strict(p, S) for p in R) or any(point_in_ring_strict(p, R) for p in S):
        return False
    # midpoints of edges strictly inside?
    for P, Q in ((R, S), (S, R)):
        for i in range(len(P)):
            m = ((P[i][0] + P[(i + 1) % len(P)][0]) / 2, (P[i][1] + P[(i + 1) % len(P)][1]) / 2)
            if point_in_ring_strict(m, Q):
                return False
    # identical or nested-with-shared-boundary polygons: centroid-ish probe
    cx = sum(p[0] for p in R) / len(R); cy = sum(p[1] for p in R) / len(R)
    if point_in_ring_strict((cx, cy), R) and point_in_ring_strict((cx, cy), S):
        return False
    return True


def dist2_point_seg(p, a, b):
    ab = (b[0] - a[0], b[1] - a[1])
    ap = (p[0] - a[0], p[1] - a[1])
    L2 = ab[0] * ab[0] + ab[1] * ab[1]
    if L2 == 0:
        return ap[0] * ap[0] + ap[1] * ap[1]
    t = (ap[0] * ab[0] + ap[1] * ab[1]) / L2
    t = max(F(0), min(F(1), t))
    q = (a[0] + t * ab[0], a[1] + t * ab[1])
    return (p[0] - q[0]) ** 2 + (p[1] - q[1]) ** 2


def dist2_point_ring(p, R):
    """squared distance from p to the closed polygon (0 if inside)"""
    if point_in_ring_closed(p, R):
        return F(0)
    return min(dist2_point_seg(p, R[i], R[(i + 1) % len(R)]) for i in range(len(R)))


def dist2_point_boundary(p, R):
    return min(dist2_point_seg(p, R[i], R[(i + 1) % len(R)]) for i in range(len(R)))


def area2(R):
    return sum(R[i][0] * R[(i + 1) % len(R)][1] - R[(i + 1) % len(R)][0] * R[i][1] for i in range(len(R)))
