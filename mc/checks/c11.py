"""C11 - derived data never goes stale under mutation.  E1: BFS over interleavings of public mutators and queries.

Four subjects (dynamic obstacle + trajectory prediction; lanelet network; traffic light; whole scenario).  Every history is
replayed on a fresh object; "q" operations are part of the alphabet so that caches are populated in every possible order before
the next mutator runs.  Oracle after every transition (differential, no hand-written expected values): every query on the live
object equals the same query on an object REBUILT THROUGH THE PUBLIC CONSTRUCTORS from the live object's current primary data.
update_initial_state additionally runs in lock-step with a list model of the four history lists.
"""
import contextlib
import copy
import json
import math

from mc.core import Result
from mc import bfs, netgeo, snap, spec

PROPERTY = "C11"
RULE = ("BFS over all histories of mutators and cache-filling queries up to the depth bound for each subject, sharded by first "
        "operation; states de-duplicated on (primary-data snapshot, which caches are populated, history lengths). non-trivial = "
        "histories containing at least one mutator after a query")
ASSUMPTIONS = ["direct vertex setters and convert_to_2d are not in the statement's mutator list",
               "after add_lanelet/remove_lanelet with rtree=False lookups are not compared until an index-rebuilding call (rtree=True) "
               "has been made - deferring the index is what the caller asked for",
               "fresh objects are built with the public constructors from copies of the live object's public attributes; tolerance 1e-9"]

PI = math.pi
TOL = 1e-9


def copy_value(v):
    import numpy as np
    from commonroad.geometry.shape import Shape
    from commonroad.common.util import Interval, AngleInterval
    if isinstance(v, np.ndarray):
        return np.array(v, dtype=float)
    if isinstance(v, AngleInterval):
        return AngleInterval(v.start, v.end)
    if isinstance(v, Interval):
        return Interval(v.start, v.end)
    if isinstance(v, Shape):
        return spec.mk_shape(snap_to_spec(snap.shape(v)))
    return v


def snap_to_spec(s):
    k = s["k"]
    if k == "rect":
        return ["rect", s["l"][1], s["w"][1], s["c"][1], s["c"][2], s["o"][1]]
    if k == "circle":
        return ["circle", s["r"][1], s["c"][1], s["c"][2]]
    if k == "poly":
        return ["poly", [[p[1], p[2]] for p in s["v"]]]
    return ["group", [snap_to_spec(m) for m in s["s"]]]


def fresh_state(st):
    return type(st)(**{a: copy_value(getattr(st, a)) for a in st.attributes if getattr(st, a) is not None or a == "time_step"})


def fresh_shape(sh):
    snap.RECT_VERTICES = False
    return spec.mk_shape(snap_to_spec(snap.shape(sh)))


# =========================================================================== subject 1: dynamic obstacle

def ks(t, x, y, th):
    return {"cls": "KSState", "attrs": {"time_step": t, "position": [x, y], "orientation": th, "velocity": 2.0, "steering_angle": 0.0}}


def pm(t, x, y, th):
    return {"cls": "CustomState", "attrs": {"time_step": t, "position": [x, y], "velocity": 2.0 * math.cos(th), "velocity_y": 2.0 * math.sin(th)}}


TRAJ = {"A": lambda mk: {"k": "trajectory", "t0": 1, "shape": ["rect", 4.0, 2.0, 0.0, 0.0, 0.0], "states": [mk(1, 5.0, 0.0, 0.0), mk(2, 9.0, 1.0, 0.3), mk(3, 13.0, 3.0, 0.6)]},
        "B": lambda mk: {"k": "trajectory", "t0": 1, "shape": ["rect", 4.0, 2.0, 0.0, 0.0, 0.0], "states": [mk(1, 5.0, 30.0, 0.0), mk(2, 9.0, 31.0, 0.3), mk(3, 13.0, 33.0, 0.6)]},
        "C": lambda mk: {"k": "trajectory", "t0": 2, "shape": ["circle", 1.0, 0.0, 0.0], "states": [mk(2, -5.0, 0.0, 1.0), mk(3, -9.0, 1.0, 1.3)]}}


def obst_start(kind, shape=("rect", 4.0, 2.0, 0.0, 0.0, 0.0)):
    mk = ks if kind == "ks" else pm

    def start():
        pred = TRAJ["A"](mk)
        pred["shape"] = list(shape)
        o = spec.mk_obstacle({"role": "dynamic", "id": 7, "type": "CAR", "shape": list(shape), "initial_state": spec.init_state(x=1.0, y=0.0, o=0.0, t=0),
                              "prediction": pred})
        return o, {"hist": [], "flags": (), "tainted": False}
    return start


def obst_ops(kind):
    def enabled(model):
        ops = [["q"], ["o.tr", [100.0, 0.0], PI / 2], ["o.tr", [0.0, 0.0], 0.3], ["p.tr", [100.0, 0.0], PI / 2], ["t.tr", [0.0, 50.0], 0.3],
               ["p.shape=", ["circle", 1.5, 0.0, 0.0]], ["p.shape=", ["rect", 6.0, 1.0, 0.0, 0.0, 0.0]], ["p.traj=", "B"], ["p.traj=", "C"],
               ["o.update_prediction", "B"], ["o.prediction=", "C"], ["o.prediction=", None], ["o.initial_state=", [40.0, 40.0, 1.0]],
               # a new initial state at the SAME position with another heading (turning on the spot), assigned and pushed with history
               ["o.initial_state=", "turn"], ["o.update_initial_state", 2, "turn"],
               # the prediction is handed its own trajectory object again (how a caller makes it pick up a change made on trajectory level)
               ["p.traj=same"]]
        for k in (1, 2, 3):
            ops.append(["o.update_initial_state", k])
        return ops
    return enabled


def obst_step(kind):
    mk = ks if kind == "ks" else pm

    def step(o, model, op):
        import numpy as np
        hist = list(model["hist"])
        k = op[0]
        tainted = model.get("tainted", False)
        if k == "t.tr":
            tainted = True     # the prediction cannot see a motion applied to its trajectory object
        elif k in ("o.tr", "p.tr", "p.shape=", "p.traj=", "p.traj=same", "o.update_prediction", "o.prediction=", "o.update_initial_state"):
            tainted = False    # these replace or invalidate the cached occupancies
        try:
            p = o.prediction
            if k == "q":
                for t in range(-1, 7):
                    o.occupancy_at_time(t); o.state_at_time(t)
                if p is not None:
                    _ = p.occupancy_set
            elif k == "o.tr":
                o.translate_rotate(np.array(op[1]), op[2])
                hist = [snap.rigid(h, op[1], float(op[2])) for h in hist]      # the previous states are moved with the obstacle (same frame)
            elif k == "p.tr":
                if p is not None:
                    p.translate_rotate(np.array(op[1]), op[2])
            elif k == "t.tr":
                if p is not None:
                    p.trajectory.translate_rotate(np.array(op[1]), op[2])
            elif k == "p.shape=":
                if p is not None:
                    p.shape = spec.mk_shape(op[1])
            elif k == "p.traj=same":
                if p is not None:
                    p.trajectory = p.trajectory
            elif k == "p.traj=":
                if p is not None:
                    p.trajectory = spec.mk_prediction(TRAJ[op[1]](mk)).trajectory
            elif k == "o.update_prediction":
                o.update_prediction(spec.mk_prediction(TRAJ[op[1]](mk)))
            elif k == "o.prediction=":
                o.prediction = None if op[1] is None else spec.mk_prediction(TRAJ[op[1]](mk))
            elif k == "o.initial_state=" and op[1] == "turn":
                cur = o.initial_state
                o.initial_state = spec.mk_state(spec.init_state(x=float(cur.position[0]), y=float(cur.position[1]), o=float(cur.orientation) + 0.9 - (6.0 if cur.orientation > 5.0 else 0.0),
                                                                t=cur.time_step))
            elif k == "o.initial_state=":
                o.initial_state = spec.mk_state(spec.init_state(x=op[1][0], y=op[1][1], o=op[1][2], t=o.initial_state.time_step))
            elif k == "o.update_initial_state":
                old = snap.state(o.initial_state)
                t_new = o.initial_state.time_step + 1
                if len(op) > 2:
                    cur = o.initial_state
                    new = spec.init_state(x=float(cur.position[0]), y=float(cur.position[1]), o=float(cur.orientation) + 0.9 - (6.0 if cur.orientation > 5.0 else 0.0), t=t_new)
                else:
                    new = spec.init_state(x=3.0 * t_new, y=-2.0, o=0.1 * t_new, t=t_new)
                o.update_initial_state(spec.mk_state(new), max_history_length=op[1])
                hist = (hist + [old])[-op[1]:]
            obs = ("ok", None)
        except Exception as e:
            obs = ("raises:" + type(e).__name__, str(e)[:200])
        return obs, {"hist": hist, "flags": (), "tainted": tainted}
    return step


def obst_fresh(o):
    from commonroad.scenario.obstacle import DynamicObstacle
    from commonroad.prediction.prediction import TrajectoryPrediction
    from commonroad.scenario.trajectory import Trajectory
    p = o.prediction
    fp = None
    from commonroad.prediction.prediction import SetBasedPrediction, Occupancy
    if isinstance(p, SetBasedPrediction):
        fp = SetBasedPrediction(p.initial_time_step, [Occupancy(copy_value(oc.time_step), fresh_shape(oc.shape)) for oc in p.occupancy_set])
    elif p is not None:
        fp = TrajectoryPrediction(Trajectory(p.trajectory.initial_time_step, [fresh_state(s) for s in p.trajectory.state_list]), fresh_shape(p.shape))
    return DynamicObstacle(o.obstacle_id, o.obstacle_type, fresh_shape(o.obstacle_shape), fresh_state(o.initial_state), fp)


def obst_queries(o):
    snap.RECT_VERTICES = False
    out = {}
    for t in range(-1, 8):
        occ = o.occupancy_at_time(t)
        st = o.state_at_time(t)
        out[f"occupancy_at_time({t})"] = None if occ is None else snap.shape(occ.shape)
        out[f"state_at_time({t})"] = None if st is None else {k: v for k, v in snap.state(st)["attrs"].items() if k in ("time_step", "position")}
    if o.prediction is not None:
        out["occupancy_set"] = [snap.occupancy(x) for x in o.prediction.occupancy_set]
    return out


def obst_canon(o, model):
    snap.RECT_VERTICES = False
    p = o.prediction
    return (json.dumps(snap.obstacle(o), sort_keys=True, default=str), p is not None and "_occupancy_set_cache" in p.__dict__, len(model["hist"]), model.get("tainted"))


def obst_check(o, model, model2, op, obs, pre):
    out = []
    if obs[0] != "ok":
        out.append((f"C11|obstacle|{op[0]}|{obs[0]}", f"{op}: {obs[1]}"))
        return out
    try:
        live = obst_queries(o)
        fresh = obst_queries(obst_fresh(o))
    except Exception as e:
        out.append((f"C11|obstacle|{op[0]}->query|raises:{type(e).__name__}", repr(e)))
        return out
    for path, kind, detail in snap.diff(fresh, live, tol_point=TOL, tol_real=0.0, angle_mod=True):
        q = path.split(".")[1].split("(")[0] if "." in path else path
        if model2.get("tainted") and q.startswith("occupancy"):
            if op[0] == "t.tr":
                out.append((f"C11|obstacle|{op[0]}->{q}|stale", f"after {op}: {path}: {detail} (fresh object vs live object)", False))
                break
            continue      # still the consequence of the earlier trajectory-level motion
        out.append((f"C11|obstacle|{op[0]}->{q}|stale", f"after {op}: {path}: {detail} (fresh object vs live object)"))
        break
    # history lists
    hs = [o.history, o.signal_history, o.center_lanelet_ids_history, o.shape_lanelet_ids_history]
    lens = [len(h) for h in hs]
    if len(set(lens)) != 1:
        out.append((f"C11|obstacle|{op[0]}|history:unequal-lengths", f"{lens}"))
    got = [snap.state(s) for s in o.history]
    if len(got) != len(model2["hist"]) or list(snap.diff(model2["hist"], got, tol_point=TOL, tol_real=0.0, angle_mod=True)):
        out.append((f"C11|obstacle|{op[0]}|history:states", f"history time steps {[g['attrs'].get('time_step') for g in got]} expected {[g['attrs'].get('time_step') for g in model2['hist']]}"))
    return out


# =========================================================================== subject 2: lanelet network

NET_START = [1, 6]
NET_EXTRA = [5, 8]
PTS = [(x * 1.0, y * 1.0) for x in range(-1, 11) for y in range(-1, 6)] + [(101.0, 1.0), (104.0, 3.0), (-1.0, 101.0), (1.0, 104.0), (5.0, 55.0)]
QSHAPES = [["rect", 2.0, 1.0, 4.0, 2.0, 0], ["rect", 2.0, 1.0, 104.0, 1.0, 0.5], ["circle", 1.0, 9.5, 2.5], ["poly", [[-2.0, 100.0], [2.0, 100.0], [0.0, 106.0]]]]


def net_start():
    from commonroad.scenario.lanelet import LaneletNetwork
    net = LaneletNetwork()
    for i in NET_START:
        net.add_lanelet(spec.mk_lanelet(netgeo.lanelet_spec(i)))
    # two further networks made from this network's lanelet list (both values of cleanup_ids) and queried once: they are networks of their own,
    # nothing that happens to `net` afterwards may show in their answers
    net._verif_twins = [LaneletNetwork.create_from_lanelet_list(net.lanelets, cleanup_ids=False), LaneletNetwork.create_from_lanelet_list(list(net.lanelets), cleanup_ids=True)]
    for tw in net._verif_twins:
        net_queries(tw)
    return net, {"deferred": False}


def net_start_plain():
    from commonroad.scenario.lanelet import LaneletNetwork
    net = LaneletNetwork()
    for i in NET_START:
        net.add_lanelet(spec.mk_lanelet(netgeo.lanelet_spec(i)))
    return net


def net_enabled(model):
    ops = [["q"], ["net.tr", [100.0, 0.0], 0.0], ["net.tr", [0.0, 0.0], PI / 2], ["lanelet.tr", 1, [0.0, 50.0], 0.0]]
    for i in NET_EXTRA:
        ops += [["add", i, True], ["add", i, False]]
    for i in NET_START + NET_EXTRA:
        ops += [["remove", i, True], ["remove", i, False]]
    # several lanelets taken over from another network, some of whose ids may already be in use here (those are rejected, the others are added)
    ops += [["add_from_network", [5, 1]], ["add_from_network", [1, 8]], ["add_from_network", [5, 8]]]
    return ops


def net_step(net, model, op):
    import numpy as np
    deferred = model["deferred"]
    k = op[0]
    try:
        have = {l.lanelet_id for l in net.lanelets}
        if k == "q":
            net_queries(net, lookups=not deferred)
        elif k == "net.tr":
            net.translate_rotate(np.array(op[1]), op[2])
            deferred = False
        elif k == "lanelet.tr":
            if op[1] in have:
                net.find_lanelet_by_id(op[1]).translate_rotate(np.array(op[2]), op[3])
                deferred = "lanelet-moved"    # the network cannot see a motion applied to one of its lanelet objects
        elif k == "add":
            if op[1] not in have:
                net.add_lanelet(spec.mk_lanelet(netgeo.lanelet_spec(op[1])), rtree=op[2])
                deferred = (not op[2]) or (deferred if not op[2] else False)
        elif k == "remove":
            if op[1] in have:
                net.remove_lanelet(op[1], rtree=op[2])
                deferred = (not op[2]) or (deferred if not op[2] else False)
        elif k == "add_from_network":
            from commonroad.scenario.lanelet import LaneletNetwork
            other = LaneletNetwork()
            for i in op[1]:
                other.add_lanelet(spec.mk_lanelet(netgeo.lanelet_spec(i)))
            net.add_lanelets_from_network(other)
            deferred = False
        obs = ("ok", None)
    except Exception as e:
        obs = ("raises:" + type(e).__name__, str(e)[:200])
    return obs, {"deferred": deferred}


def net_fresh(net):
    import numpy as np
    from commonroad.scenario.lanelet import LaneletNetwork, Lanelet
    new = LaneletNetwork()
    for l in net.lanelets:
        new.add_lanelet(Lanelet(np.array(l.left_vertices, dtype=float), np.array(l.center_vertices, dtype=float), np.array(l.right_vertices, dtype=float), l.lanelet_id))
    return new


def net_queries(net, lookups=True):
    import numpy as np
    out = {}
    for l in net.lanelets:
        out[f"polygon.vertices[{l.lanelet_id}]"] = [snap.P(v) for v in l.polygon.vertices]
        out[f"distance[{l.lanelet_id}]"] = [("R", float(x)) for x in l.distance]
        out[f"inner_distance[{l.lanelet_id}]"] = [("R", float(x)) for x in l.inner_distance]
        s = float(l.distance[-1]) / 3.0
        out[f"interpolate_position[{l.lanelet_id}]"] = [snap.P(x) for x in l.interpolate_position(s)[:3]]
        out[f"contains_points[{l.lanelet_id}]"] = [bool(b) for b in l.contains_points(np.array(PTS))]
    if lookups and net.lanelets:
        out["find_lanelet_by_position"] = [sorted(int(i) for i in r) for r in net.find_lanelet_by_position([np.array(p) for p in PTS])]
        out["find_lanelet_by_shape"] = [sorted(int(i) for i in net.find_lanelet_by_shape(spec.mk_shape(s))) for s in QSHAPES]
    return out


def net_canon(net, model):
    return (json.dumps({l.lanelet_id: [snap.P(v) for v in l.left_vertices] + [snap.P(v) for v in l.right_vertices] for l in net.lanelets}, sort_keys=True),
            tuple(sorted((l.lanelet_id, l._distance is None if hasattr(l, "_distance") else None) for l in net.lanelets)), model["deferred"])


def net_check(net, model, model2, op, obs, pre, subject="network"):
    out = []
    if obs[0] != "ok":
        out.append((f"C11|{subject}|{op[0]}|{obs[0]}", f"{op}: {obs[1]}"))
        return out
    just_moved = op[0] == "lanelet.tr" and model2["deferred"] == "lanelet-moved" and not model["deferred"]
    try:
        live = net_queries(net, lookups=(not model2["deferred"]) or just_moved)
        fresh = net_queries(net_fresh(net), lookups=(not model2["deferred"]) or just_moved)
    except Exception as e:
        out.append((f"C11|{subject}|{op[0]}->query|raises:{type(e).__name__}", repr(e)))
        return out
    if subject == "network" and getattr(net, "_verif_twins", None):
        pristine = net_queries(net_start_plain())
        for ti, tw in enumerate(net._verif_twins):
            try:
                got = net_queries(tw)
            except Exception as e:
                out.append((f"C11|{subject}|{op[0]}->network-made-from-the-same-lanelet-list|raises:{type(e).__name__}", repr(e)))
                continue
            for path, kind, detail in snap.diff(pristine, got, tol_point=TOL, tol_real=1e-9, angle_mod=False):
                q = path.split(".", 1)[1].split("[")[0] if "." in path else path
                out.append((f"C11|{subject}|{op[0]}->{q}|changed-in-a-network-made-from-the-same-lanelet-list(cleanup_ids={bool(ti)})", f"after {op} on the first network: {path}: {detail}"))
                break
    for path, kind, detail in snap.diff(fresh, live, tol_point=TOL, tol_real=1e-9, angle_mod=False):
        q = path.split(".", 1)[1].split("[")[0] if "." in path else path
        if just_moved and q.startswith("find_lanelet_by"):
            out.append((f"C11|{subject}|{op[0]}->{q}|stale", f"after {op}: {path}: {detail} (fresh object vs live object)", False))
            break
        out.append((f"C11|{subject}|{op[0]}->{q}|stale", f"after {op}: {path}: {detail} (fresh object vs live object)"))
        break
    return out


# =========================================================================== subject 3: traffic light

def light_start():
    t = spec.mk_light({"id": 11, "position": [1.0, 1.0], "cycle": [("RED", 2), ("GREEN", 3), ("YELLOW", 1)], "offset": 1})
    # the model is the primary data AS IT WAS ASSIGNED through the public API (what the caller knows), not what the object reports about itself
    return t, {"elements": [["RED", 2], ["GREEN", 3], ["YELLOW", 1]], "offset": 1}


def light_start_empty():
    # a light that is constructed with a cycle that has no elements yet (a valid way to build one step by step); the elements are assigned later
    from commonroad.scenario.traffic_light import TrafficLight, TrafficLightCycle
    import numpy as np
    return TrafficLight(11, np.array([1.0, 1.0]), TrafficLightCycle([], time_offset=1)), {"elements": [], "offset": 1}


def light_enabled(model):
    if not model.get("elements", True):
        # nothing to ask a cycle without elements; it can be given elements in the three public ways
        return [["cycle_elements=", [["GREEN", 1], ["RED", 4]]], ["light.cycle=", [["RED", 1], ["GREEN", 2]], 3], ["elements.append", ["RED_YELLOW", 2]], ["time_offset=", 4]]
    return [["q"], ["cycle_elements=", [["GREEN", 1], ["RED", 4]]], ["cycle_elements=", [["RED", 2], ["GREEN", 3], ["YELLOW", 1], ["RED_YELLOW", 2]]],
            ["element.duration=", 0, 5], ["element.duration=", 1, 1], ["element.state=", 0, "GREEN"], ["time_offset=", 0], ["time_offset=", 4], ["time_offset=", 13], ["time_offset=", -3],
            ["light.cycle=", [["YELLOW", 2], ["RED", 2]], 3], ["elements.append", ["INACTIVE", 2]]]


def light_step(t, model, op):
    from commonroad.scenario.traffic_light import TrafficLightCycle, TrafficLightCycleElement, TrafficLightState
    k = op[0]
    els, off = [list(e) for e in model.get("elements", [])], model.get("offset", 0)
    if k == "cycle_elements=":
        els = [list(e) for e in op[1]]
    elif k == "element.duration=" and op[1] < len(els):
        els[op[1]][1] = op[2]
    elif k == "element.state=" and op[1] < len(els):
        els[op[1]][0] = op[2]
    elif k == "time_offset=":
        off = op[1]
    elif k == "light.cycle=":
        els, off = [list(e) for e in op[1]], op[2]
    elif k == "elements.append":
        els = els + [list(op[1])]
    try:
        c = t.traffic_light_cycle
        if k == "q":
            for ts in range(-3, 20):
                t.get_state_at_time_step(ts); c.get_state_at_time_step(ts)
        elif k == "cycle_elements=":
            c.cycle_elements = [TrafficLightCycleElement(TrafficLightState[s], d) for s, d in op[1]]
        elif k == "element.duration=":
            if op[1] < len(c.cycle_elements):
                c.cycle_elements[op[1]].duration = op[2]
        elif k == "element.state=":
            if op[1] < len(c.cycle_elements):
                c.cycle_elements[op[1]].state = TrafficLightState[op[2]]
        elif k == "time_offset=":
            c.time_offset = op[1]
        elif k == "light.cycle=":
            t.traffic_light_cycle = TrafficLightCycle([TrafficLightCycleElement(TrafficLightState[s], d) for s, d in op[1]], time_offset=op[2])
        elif k == "elements.append":
            c.cycle_elements = list(c.cycle_elements) + [TrafficLightCycleElement(TrafficLightState[op[1][0]], op[1][1])]
        obs = ("ok", None)
    except Exception as e:
        obs = ("raises:" + type(e).__name__, str(e)[:200])
    return obs, {"elements": els, "offset": off}


def light_fresh(t):
    c = t.traffic_light_cycle
    return spec.mk_light({"id": t.traffic_light_id, "position": [float(t.position[0]), float(t.position[1])],
                          "cycle": [(e.state.name, e.duration) for e in c.cycle_elements], "offset": c.time_offset})


def light_queries(t):
    out = {}
    for ts in range(-6, 30):
        out[f"TrafficLight.get_state_at_time_step({ts})"] = t.get_state_at_time_step(ts).name
        out[f"cycle.get_state_at_time_step({ts})"] = t.traffic_light_cycle.get_state_at_time_step(ts).name
    return out


def light_canon(t, model):
    c = t.traffic_light_cycle
    return (json.dumps(snap.light(t), sort_keys=True, default=str), hasattr(c, "_cycle_init_timesteps"), json.dumps(model, sort_keys=True))


def light_check(t, model, model2, op, obs, pre):
    out = []
    if obs[0] == "ok" and not model2["elements"]:
        return out          # still without elements: no state to ask for
    if obs[0] != "ok":
        out.append((f"C11|traffic-light|{op[0]}|{obs[0]}", f"{op}: {obs[1]}"))
        return out
    try:
        live, fresh = light_queries(t), light_queries(light_fresh(t))
    except Exception as e:
        out.append((f"C11|traffic-light|{op[0]}->get_state_at_time_step|raises:{type(e).__name__}", repr(e)))
        return out
    bad = [k for k in fresh if fresh[k] != live[k]]
    if bad:
        out.append((f"C11|traffic-light|{op[0]}->get_state_at_time_step|stale", f"after {op}: {bad[0]}: live {live[bad[0]]} fresh {fresh[bad[0]]} ({len(bad)} time steps differ)"))
        return out
    # ... and like a light constructed from the values that were ASSIGNED (elements, durations, offset) in this history
    try:
        want = light_queries(spec.mk_light({"id": 11, "position": [1.0, 1.0], "cycle": [tuple(e) for e in model2["elements"]], "offset": model2["offset"]}))
    except Exception as e:
        out.append((f"C11|traffic-light|{op[0]}->reference-light|raises:{type(e).__name__}", repr(e)))
        return out
    bad = [k for k in want if want[k] != live[k]]
    if bad:
        out.append((f"C11|traffic-light|{op[0]}->get_state_at_time_step|differs-from-light-built-from-the-assigned-values",
                    f"after {op}: {bad[0]}: live {live[bad[0]]}, a light built from elements {model2['elements']} and offset {model2['offset']} gives {want[bad[0]]}"))
    return out


# =========================================================================== subject 4: whole scenario

OCC_PROBES = [(3.0, 1.0), (4.0, 1.0), (5.0, 1.5), (6.0, 0.5), (1.0, 1.0), (103.0, 1.0), (104.0, 1.0), (106.0, 0.5), (-1.0, 3.0), (-1.5, 5.0), (-0.5, 6.0), (3.0, 51.0), (6.0, 50.5),
              (2.0, 1.0), (102.0, 1.0), (-1.0, 2.0), (6.0, 3.0), (106.0, 3.0), (-3.0, 6.0)]


def scen_start():
    sp = spec.minimal()
    sp["lanelets"] = [netgeo.lanelet_spec(i) for i in NET_START]
    sp["lights"] = [{"id": 11, "position": [1.0, 5.0], "cycle": [("RED", 2), ("GREEN", 3)], "offset": 0}]
    sp["lanelets"][0]["lights"] = [11]
    sp["obstacles"] = [{"role": "dynamic", "id": 70, "type": "CAR", "shape": ["rect", 4.0, 2.0, 0.0, 0.0, 0.0], "initial_state": spec.init_state(x=1.0, y=1.0, o=0.0, t=0), "prediction": TRAJ["A"](ks)},
                       {"role": "static", "id": 71, "type": "PARKED_VEHICLE", "shape": ["rect", 3.0, 1.5, 0.0, 0.0, 0.0], "initial_state": spec.init_state(x=6.0, y=3.0, o=0.4, t=0)}]
    sp["pps"] = []
    sc, _ = spec.build(sp)
    # a second dynamic obstacle whose trajectory is constructed from the SAME Python list of states as obstacle 70's (a caller-owned list used twice)
    from commonroad.scenario.obstacle import DynamicObstacle, ObstacleType
    from commonroad.scenario.trajectory import Trajectory
    from commonroad.prediction.prediction import TrajectoryPrediction
    shared = sc.obstacle_by_id(70).prediction.trajectory.state_list
    sc.add_objects(DynamicObstacle(72, ObstacleType.CAR, spec.mk_shape(["rect", 3.0, 1.5, 0.0, 0.0, 0.0]), spec.mk_state(spec.init_state(x=0.0, y=3.0, o=0.0, t=0)),
                                   TrajectoryPrediction(Trajectory(1, shared), spec.mk_shape(["rect", 3.0, 1.5, 0.0, 0.0, 0.0]))))
    # ... and one with a set-based prediction (rectangle, group and polygon occupancies): these shapes are moved as they are, not re-placed at a state
    from commonroad.prediction.prediction import SetBasedPrediction, Occupancy
    occs = [Occupancy(1, spec.mk_shape(["rect", 2.0, 1.0, 3.0, 1.0, 0.2])), Occupancy(2, spec.mk_shape(["group", [["rect", 1.0, 1.0, 4.0, 1.0, 0.0], ["circle", 0.5, 5.0, 1.5]]])),
            Occupancy(3, spec.mk_shape(["poly", [[5.0, 0.0], [7.0, 0.0], [7.0, 1.0], [5.0, 1.5]]]))]
    sc.add_objects(DynamicObstacle(73, ObstacleType.BICYCLE, spec.mk_shape(["rect", 2.0, 1.0, 0.0, 0.0, 0.0]), spec.mk_state(spec.init_state(x=2.0, y=1.0, o=0.2, t=0)),
                                   SetBasedPrediction(1, occs)))
    scen_queries(sc)        # every derived datum exists before the first operation
    return sc, {"deferred": False}


def scen_enabled(model):
    return [["q"], ["sc.tr", [100.0, 0.0], 0.0], ["sc.tr", [0.0, 0.0], PI / 2], ["sc.add_lanelet", 5], ["sc.remove_lanelet", 6], ["sc.remove_lanelet", 5], ["net.tr", [0.0, 50.0], 0.0],
            ["obstacle.tr", 70, [0.0, 20.0], 0.3]]


def scen_step(sc, model, op):
    import numpy as np
    k = op[0]
    try:
        have = {l.lanelet_id for l in sc.lanelet_network.lanelets}
        if k == "q":
            scen_queries(sc)
        elif k == "sc.tr":
            sc.translate_rotate(np.array(op[1]), op[2])
        elif k == "net.tr":
            sc.lanelet_network.translate_rotate(np.array(op[1]), op[2])
        elif k == "obstacle.tr":
            sc.obstacle_by_id(op[1]).translate_rotate(np.array(op[2]), op[3])
        elif k == "sc.add_lanelet":
            if op[1] not in have:
                sc.add_objects(spec.mk_lanelet(netgeo.lanelet_spec(op[1])))
        elif k == "sc.remove_lanelet":
            if op[1] in have:
                sc.remove_lanelet(sc.lanelet_network.find_lanelet_by_id(op[1]))
        obs = ("ok", None)
    except Exception as e:
        obs = ("raises:" + type(e).__name__, str(e)[:200])
    return obs, {"deferred": False}


def scen_queries(sc, fresh_obstacles=None):
    out = net_queries(sc.lanelet_network)
    obstacles = fresh_obstacles if fresh_obstacles is not None else sc.obstacles
    snap.RECT_VERTICES = True          # the corner points a rectangle reports are derived data, too
    if fresh_obstacles is None:
        for t in range(0, 5):
            out[f"occupancies_at_time_step({t})"] = sorted(repr(snap.shape(o.shape)) for o in sc.occupancies_at_time_step(t))
    else:
        for t in range(0, 5):
            out[f"occupancies_at_time_step({t})"] = sorted(repr(snap.shape(o.occupancy_at_time(t).shape)) for o in obstacles if o.occupancy_at_time(t) is not None)
    # membership of fixed probe points in every occupancy (answers come from the shapes' internal geometry)
    import numpy as np
    for o in sorted(obstacles, key=lambda o_: o_.obstacle_id):
        for t in range(0, 4):
            oc = o.occupancy_at_time(t)
            if oc is not None:
                out[f"occupancy({o.obstacle_id},{t}).contains_point"] = [bool(oc.shape.contains_point(np.array(p))) for p in OCC_PROBES]
    snap.RECT_VERTICES = False
    return out


def scen_canon(sc, model):
    snap.RECT_VERTICES = False
    d = sc.obstacle_by_id(70)
    return (json.dumps(snap.scenario(sc, meta=False), sort_keys=True, default=str), d is not None and d.prediction is not None and "_occupancy_set_cache" in d.prediction.__dict__)


def scen_check(sc, model, model2, op, obs, pre):
    from commonroad.scenario.obstacle import StaticObstacle
    out = []
    if obs[0] != "ok":
        out.append((f"C11|scenario|{op[0]}|{obs[0]}", f"{op}: {obs[1]}"))
        return out
    try:
        live = scen_queries(sc)
        fo = []
        for o in sc.obstacles:
            if o.obstacle_role.name.upper() == "DYNAMIC":
                fo.append(obst_fresh(o))
            else:
                fo.append(StaticObstacle(o.obstacle_id, o.obstacle_type, fresh_shape(o.obstacle_shape), fresh_state(o.initial_state)))

        class _F:
            lanelet_network = net_fresh(sc.lanelet_network)
        fresh = scen_queries(_F, fresh_obstacles=fo)
    except Exception as e:
        out.append((f"C11|scenario|{op[0]}->query|raises:{type(e).__name__}", repr(e)))
        return out
    for path, kind, detail in snap.diff(fresh, live, tol_point=TOL, tol_real=1e-9, angle_mod=False):
        q = path.split(".", 1)[1].split("[")[0].split("(")[0] if "." in path else path
        out.append((f"C11|scenario|{op[0]}->{q}|stale", f"after {op}: {path}: {detail}"[:400]))
        break
    return out


SUBJECTS = {
    "obstacle-ks": (obst_start("ks"), obst_ops("ks"), obst_step("ks"), obst_canon, obst_check),
    "obstacle-pm": (obst_start("pm"), obst_ops("pm"), obst_step("pm"), obst_canon, obst_check),
    # the same subject with a shape whose reference point is not its centre (vehicle referenced at the rear axle)
    "obstacle-offcentre": (obst_start("ks", ("rect", 4.0, 2.0, 1.25, 0.5, 0.0)), obst_ops("ks"), obst_step("ks"), obst_canon, obst_check),
    "network": (net_start, net_enabled, net_step, net_canon, net_check),
    "traffic-light": (light_start, light_enabled, light_step, light_canon, light_check),
    "traffic-light-built-empty": (light_start_empty, light_enabled, light_step, light_canon, light_check),
    "scenario": (scen_start, scen_enabled, scen_step, scen_canon, scen_check),
}
DEPTH = {"quick": {"obstacle-ks": 3, "obstacle-pm": 3, "obstacle-offcentre": 3, "network": 3, "traffic-light": 4, "traffic-light-built-empty": 3, "scenario": 3},
         "thorough": {"obstacle-ks": 4, "obstacle-pm": 4, "obstacle-offcentre": 4, "network": 4, "traffic-light": 5, "traffic-light-built-empty": 4, "scenario": 4}}


def describe(tier):
    return {"subjects": {k: len(v[1]({"hist": [], "flags": (), "deferred": False})) for k, v in SUBJECTS.items()}, "depth": DEPTH[tier], "exhaustive": True,
            "note": "numbers are operations enabled per state"}


def units(tier):
    u = []
    for name, (start, enabled, step, canon, check) in SUBJECTS.items():
        _, m = start()
        for op in enabled(m):
            u.append({"subject": name, "first": op, "depth": DEPTH[tier][name]})
    return u


def run_unit(unit, tier):
    res = Result()
    start, enabled, step, canon, check = SUBJECTS[unit["subject"]]
    live, m0 = start()
    obs, m1 = step(live, m0, unit["first"])
    res.transitions += 1; res.evals += 1
    bad = False
    for item in check(live, m0, m1, unit["first"], obs, None):
        res.violation(item[0], item[1], {"history": [unit["first"]]})
        if len(item) < 3 or item[2]:
            bad = True
    if not bad:
        info = bfs.search(start, enabled, step, canon, check, unit["depth"] - 1, res, prefix=[unit["first"]])
        res.extra["shards_closed"] = 1 if info["closed"] else 0
    res.violations = [(s, d, dict(c, subject=unit["subject"])) for s, d, c in res.violations]
    res.samples = [dict(c, subject=unit["subject"]) for c in res.samples]
    return res


def replay(case):
    start, enabled, step, canon, check = SUBJECTS[case["subject"]]
    live, model = start()
    out = []
    for op in case["history"]:
        obs, model2 = step(live, model, op)
        if op is case["history"][-1]:
            out += [(i[0], i[1]) for i in check(live, model, model2, op, obs, None)]
        model = model2
    return out


def canaries():
    from commonroad.prediction import prediction as pr
    from commonroad.scenario import obstacle as ob

    @contextlib.contextmanager
    def shape_setter_no_invalidate():
        o = pr.TrajectoryPrediction.shape

        def setter(self, shape):
            self._shape = shape
        pr.TrajectoryPrediction.shape = property(o.fget, setter)
        try:
            yield
        finally:
            pr.TrajectoryPrediction.shape = o

    @contextlib.contextmanager
    def history_truncation_off_by_one():
        o = ob.DynamicObstacle.update_initial_state

        def bad(self, current_state, current_signal_state=None, current_center_lanelet_ids=None, current_shape_lanelet_ids=None, max_history_length=6000):
            o(self, current_state, current_signal_state, current_center_lanelet_ids, current_shape_lanelet_ids, max_history_length)
            if len(self.history) >= max_history_length and max_history_length > 1:
                self.history = self.history[-max_history_length + 1:]
        ob.DynamicObstacle.update_initial_state = bad
        try:
            yield
        finally:
            ob.DynamicObstacle.update_initial_state = o
    return [("prediction.shape-setter-does-not-invalidate", shape_setter_no_invalidate), ("history-truncated-one-too-short", history_truncation_off_by_one)]
