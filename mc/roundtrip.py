"""Write -> read round trip through the real file writers/readers and the comparison of public snapshots (C01, C02, C03)."""
import copy
import os
import re

from mc import snap, spec

DECIMAL = re.compile(r"-?\d+(\.\d+)?\Z")
_xsd = None


def xsd():
    global _xsd
    if _xsd is None:
        import commonroad
        from lxml import etree
        p = os.path.join(os.path.dirname(commonroad.__file__), "scenario_definition", "xml_definition_files", "XML_commonRoad_XSD.xsd")
        _xsd = etree.XMLSchema(etree.parse(p))
    return _xsd


def snapshot(sc, pps):
    snap.RECT_VERTICES = False
    return {"scenario": snap.scenario(sc), "pps": snap.planning_problem_set(pps)}


def write(sc, pps, fmt, path, precision=4, scenario_only=False):
    from commonroad.common.file_writer import CommonRoadFileWriter, OverwriteExistingFile
    from commonroad.common.util import FileFormat
    ff = FileFormat.XML if fmt == "xml" else FileFormat.PROTOBUF
    kw = {"decimal_precision": precision} if fmt == "xml" else {}
    w = CommonRoadFileWriter(sc, pps, sc.author, sc.affiliation, sc.source, sc.tags, sc.location, file_format=ff, **kw)
    if scenario_only:
        w.write_scenario_to_file(path, OverwriteExistingFile.ALWAYS)
    else:
        w.write_to_file(path, OverwriteExistingFile.ALWAYS)
    return w


def read(fmt, path):
    from commonroad.common.file_reader import CommonRoadFileReader
    from commonroad.common.util import FileFormat
    return CommonRoadFileReader(path, file_format=FileFormat.XML if fmt == "xml" else FileFormat.PROTOBUF).open()


def reuse_routes(w, sc, pps, esc, epps, fmt, precision, fn, already=()):
    """Further uses of the SAME reader object and the SAME writer object (both entry points keep per-object state):
       (1) a reader whose first result was edited by the caller is asked again (open, open_lanelet_network): it reads the file, not its memory;
       (2) the scenario the writer was constructed with is edited in place (moved) and the writer writes again: the file holds the edited scenario.
       -> list of (signature suffix, detail); esc/epps is the convention-adjusted twin the expectation is taken from (may be sc/pps itself);
       `already` = the (path, kind) differences the first, ordinary round trip of this spec showed (reported there, not again per route)."""
    import numpy as np
    from commonroad.common.file_writer import OverwriteExistingFile
    from commonroad.common.file_reader import CommonRoadFileReader
    from commonroad.common.util import FileFormat
    out = []
    ff = FileFormat.XML if fmt == "xml" else FileFormat.PROTOBUF
    shift = np.array([3.0, -2.0])

    def cmp(tag, s_exp, s_got):
        seen = set()
        for path, kind, detail in compare(s_exp, s_got, fmt, precision):
            p_, k_ = classify(path, kind)
            if (p_, k_) not in seen and (p_, k_) not in already:
                seen.add((p_, k_)); out.append((f"{tag}|{p_}|{k_}", f"{path}: {detail}"))
    s0 = snapshot(esc, epps)
    try:
        r = CommonRoadFileReader(fn, file_format=ff)
        a_sc, a_pps = r.open()
        try:
            a_sc.translate_rotate(shift, 0.0)
            if a_sc.lanelet_network.lanelets:
                a_sc.remove_lanelet(a_sc.lanelet_network.lanelets[-1])
        except Exception:
            pass
        net = r.open_lanelet_network()          # asked for right after the caller edited the first result
        b_sc, b_pps = r.open()
        sb = snapshot(b_sc, b_pps)
        cmp("reader-used-again:open", s0, sb)
        sn = dict(sb, scenario=dict(sb["scenario"], network=snap.network(net)))
        cmp("reader-used-again:open_lanelet_network", s0, sn)
        try:
            b_sc.translate_rotate(-shift, 0.0)
        except Exception:
            pass
        net2 = r.open_lanelet_network()
        cmp("reader-used-again:open_lanelet_network(2)", s0, dict(sb, scenario=dict(sb["scenario"], network=snap.network(net2))))
    except Exception as e:
        out.append((f"reader-used-again|raises:{type(e).__name__}", repr(e)))
    try:
        sc.translate_rotate(shift, 0.0)
        if pps is not None:
            pps.translate_rotate(shift, 0.0)
        if esc is not sc:
            esc.translate_rotate(shift, 0.0)
            if epps is not None:
                epps.translate_rotate(shift, 0.0)
    except Exception:
        return out          # moving is C05's subject; nothing further is asserted here
    fn3 = fn + ".third"
    try:
        w.write_to_file(fn3, OverwriteExistingFile.ALWAYS)
        c_sc, c_pps = read(fmt, fn3)
        cmp("same-writer-after-the-scenario-was-moved", snapshot(esc, epps), snapshot(c_sc, c_pps))
    except Exception as e:
        out.append((f"same-writer-after-the-scenario-was-moved|raises:{type(e).__name__}", repr(e)))
    finally:
        if os.path.exists(fn3):
            os.remove(fn3)
    return out


INIT_DEFAULT_ATTRS = ("velocity", "acceleration", "yaw_rate", "slip_angle", "orientation")


def _norm_state(st, initial=False):
    if st is None:
        return None
    st = dict(st)
    st.pop("cls", None)
    st.pop("declared", None)
    a = dict(st["attrs"])
    if initial:
        # documented reader default: unset attributes of initial states read back as 0
        for k in INIT_DEFAULT_ATTRS:
            a.setdefault(k, ("O", 0.0) if k == "orientation" else ("R", 0.0))
    st["attrs"] = a
    return st


def normalise(s, fmt, original=None):
    """drop what the statement excludes; apply the documented reader conventions to BOTH sides"""
    s = copy.deepcopy(s)
    sc = s["scenario"]
    for l in sc["network"]["lanelets"].values():
        if fmt == "xml" and not l.get("types"):
            l["types"] = ["UNKNOWN"]     # the 2020a schema requires a laneletType: the writer documents that it writes the default for a lanelet without type
        sl = l.get("stop_line")
        if sl:
            for k in ("sign_ref", "light_ref"):      # no references: None and the empty set carry the same information
                if sl.get(k) is None:
                    sl[k] = []
    for sg in sc["network"]["signs"].values():
        if fmt == "xml":
            sg.pop("first_occurrence", None)      # not part of the 2020a XML schema (recomputed by the reader)
    for t in sc["network"]["lights"].values():
        t.pop("color", None)                      # derived from the cycle
    for o in sc["obstacles"].values():
        # lanelet assignments are computed data (C07), not file content
        o.pop("initial_center_lanelet_ids", None); o.pop("initial_shape_lanelet_ids", None)
        if o.get("prediction"):
            o["prediction"].pop("center_assign", None); o["prediction"].pop("shape_assign", None)
        if "initial_state" in o:
            o["initial_state"] = _norm_state(o["initial_state"], initial=True)
        if o.get("signal_series") is None and "signal_series" in o:
            o["signal_series"] = []
        p = o.get("prediction")
        if p and p.get("k") == "trajectory":
            p["traj"]["states"] = [_norm_state(x) for x in p["traj"]["states"]]
    loc_ = sc.get("location")
    if fmt == "xml" and loc_ and loc_.get("env") and loc_["env"].get("time"):
        loc_["env"]["time"] = tuple(loc_["env"]["time"][:2])      # the XML format stores the time of day only (xs:time); protobuf has fields for the date
    for pp in (s["pps"] or {}).values():
        pp["initial_state"] = _norm_state(pp["initial_state"], initial=True)
        pp["goal"]["states"] = [_norm_state(x) for x in pp["goal"]["states"]]
        pp["goal"].pop("lanelets_type", None)
        if pp["goal"].get("lanelets"):
            # "no lanelets for this goal state" has two spellings (no entry / an empty list); the formats store neither
            pp["goal"]["lanelets"] = {k: v for k, v in pp["goal"]["lanelets"].items() if v}
    if original is not None and original["scenario"].get("location") is None:
        sc.pop("location", None)
    if original is None and sc.get("location") is None:
        sc.pop("location", None)
    return s


def compare(s0, s1, fmt, precision):
    """yields (path, kind, detail): s0 snapshot before writing, s1 snapshot of what was read back"""
    a = normalise(s0, fmt)
    b = normalise(s1, fmt, original=s0)
    if s0["scenario"].get("location") is None:
        b["scenario"].pop("location", None)
    tol = 0.0 if fmt == "pb" else 10.0 ** (-precision)
    yield from snap.diff(a, b, tol_point=tol + (0 if fmt == "pb" else 1e-12), angle_mod=False, tol_angle=tol + (0 if fmt == "pb" else 1e-12), abs_real=tol)


def classify(path, kind):
    p = snap.strip_index(path)
    p = re.sub(r"^\.scenario\.", "", p)
    k = {"dropped": "dropped", "added": "materialised-from-absent", "altered": "altered", "kind-changed": "kind-changed", "length-changed": "count-changed"}.get(kind, kind)
    return p, k


def xml_lexical_scan(xml_bytes):
    """every numeric text node / attribute that the XSD types as decimal/integer must be plain decimal notation"""
    from lxml import etree
    root = etree.fromstring(xml_bytes)
    bad = []
    numeric_leaf = {"x", "y", "z", "exact", "intervalStart", "intervalEnd", "length", "width", "radius", "orientation", "duration", "timeOffset", "gpsLatitude", "gpsLongitude",
                    "geoNameId", "xTranslation", "yTranslation", "zRotation", "scaling"}
    for el in root.iter():
        if el.tag in numeric_leaf and len(el) == 0 and el.text is not None:
            if not DECIMAL.match(el.text.strip()):
                bad.append((root.getroottree().getpath(el), el.text))
    ts = root.get("timeStepSize")
    if ts is not None and not DECIMAL.match(ts.strip()):
        bad.append(("/commonRoad/@timeStepSize", ts))
    return bad


def strip_indices(xpath):
    return re.sub(r"\[\d+\]", "", xpath)
