#!/bin/bash
# usage: tools/seedrun.sh <PROP> <patch.diff> [tier]   -- apply a seeded change to /repo, run the check, undo.
set -u
PROP=$1; PATCH=$2; TIER=${3:-quick}
cd /repo || exit 9
if [ -n "$(git status --porcelain --untracked-files=no)" ]; then echo "repo not clean"; exit 9; fi
git apply "$PATCH" || { echo "patch does not apply"; exit 9; }
cd /verif
# (the whole output is captured first: cutting it with head while the check still writes would kill the check)
OUT=$(/venv/bin/python -m mc.run $PROP --tier $TIER --no-confirm 2>&1); rc=$?
echo "$OUT" | grep -v condarc | grep -E "VIOLATION|signature|tier=|HARNESS|KNOWN" | cut -c1-220 | head -${SEEDRUN_LINES:-14}
git -C /repo checkout -- . 
find /repo -name __pycache__ -path '*commonroad*' -prune -exec rm -rf {} + 2>/dev/null
echo "seedrun rc=$rc"
