"""C12 - equality and hashing of scenario elements follow their contract.  E2-grid, one-factor (+ pairs in thorough).

For every class: two base instances (all optional arguments defaulted / fully populated), every constructor parameter
changed to every alternative of a small table, set-valued parameters in permuted insertion orders.  Every object is built
fresh through the public constructor for every evaluation (factories, no sharing).
Oracle: x==x, x==deepcopy(x), x==rebuilt(x), symmetry, variant != base (both directions) whenever the changed
parameter is still visibly different after construction, hash() never raises, equal => equal hashes.
"""
import contextlib
import copy
import dataclasses
import itertools
import math

from mc.core import Result

PROPERTY = "C12"
RULE = ("for each of the classes: 2 bases x every constructor parameter x every alternative value (one-factor; thorough adds all "
        "parameter pairs for container classes) + permuted insertion orders of set/list-of-id parameters. A case is non-trivial "
        "when the variant is visibly different from the base after construction (premise of the inequality clause); distinct by "
        "construction")
ASSUMPTIONS = ["real alternatives differ by 1e-9 (>1e-10) or by a factor; differences <= 1e-10 are not asserted either way",
               "a variant whose changed parameter is normalised away by the constructor (public attribute equal to the base's) "
               "is skipped: the premise 'differ in a constructor-visible attribute' is false for it",
               "hash() raising TypeError is a violation for objects built through public constructors, including defaults"]

EPS = 1e-9


def A(*v):
    import numpy as np
    return np.array(v, dtype=float)


# ---------------------------------------------------------------------------------------- nested fresh values

def rect(l=4.0, w=2.0, c=(1.0, 2.0), o=0.3):
    from commonroad.geometry.shape import Rectangle
    return Rectangle(l, w, A(*c), o)


def circ(r=1.5, c=(1.0, 2.0)):
    from commonroad.geometry.shape import Circle
    return Circle(r, A(*c))


def poly(d=0.0):
    from commonroad.geometry.shape import Polygon
    import numpy as np
    return Polygon(np.array([[0.0, 0.0], [4.0 + d, 0.0], [4.0, 3.0], [0.0, 3.0]]))


def ks(t=1, x=1.0, y=2.0, v=3.0, o=0.1, s=0.01):
    from commonroad.scenario.state import KSState
    return KSState(time_step=t, position=A(x, y), velocity=v, orientation=o, steering_angle=s)


def init_state(t=0, x=1.0, v=3.0):
    from commonroad.scenario.state import InitialState
    return InitialState(time_step=t, position=A(x, 2.0), orientation=0.1, velocity=v, acceleration=0.2, yaw_rate=0.0, slip_angle=0.0)


def traj(t0=1, n=2, dx=0.0):
    from commonroad.scenario.trajectory import Trajectory
    return Trajectory(t0, [ks(t0 + i, 1.0 + i + dx) for i in range(n)])


def tpred(dx=0.0, **kw):
    from commonroad.prediction.prediction import TrajectoryPrediction
    return TrajectoryPrediction(traj(dx=dx), rect(c=(0, 0), o=0.0), **kw)


def occ(t=1, d=0.0):
    from commonroad.prediction.prediction import Occupancy
    return Occupancy(t, rect(l=4.0 + d))


def spred(d=0.0, t0=1):
    from commonroad.prediction.prediction import SetBasedPrediction
    return SetBasedPrediction(t0, [occ(t0, d), occ(t0 + 1, d)])


def sig(t=0, **kw):
    from commonroad.scenario.state import SignalState
    base = dict(time_step=t, horn=False, indicator_left=True, indicator_right=False, braking_lights=False,
                hazard_warning_lights=False, flashing_blue_lights=False)
    base.update(kw)
    return SignalState(**base)


def meta(k=1, order=False):
    """meta information of an obstacle (free key / value tables); order=True builds the same tables with the keys inserted in another order"""
    from commonroad.scenario.state import MetaInformationState
    s_ = {"a": "b", "c": str(k)}
    if order:
        s_ = dict(reversed(list(s_.items())))
    return MetaInformationState(meta_data_str=s_, meta_data_int={"k": k}, meta_data_float={"f": 0.5 * k}, meta_data_bool={"t": bool(k % 2)})


def stopline(**kw):
    from commonroad.common.common_lanelet import StopLine, LineMarking
    d = dict(start=A(0, 0), end=A(0, 3), line_marking=LineMarking.SOLID, traffic_sign_ref={10}, traffic_light_ref={11})
    d.update(kw)
    return StopLine(**d)


def sign_el(v="50"):
    from commonroad.scenario.traffic_sign import TrafficSignElement, TrafficSignIDGermany
    return TrafficSignElement(TrafficSignIDGermany.MAX_SPEED, [v])


def cyc_el(d=2, s="RED"):
    from commonroad.scenario.traffic_light import TrafficLightCycleElement, TrafficLightState
    return TrafficLightCycleElement(TrafficLightState[s], d)


def cycle(off=1, d=2):
    from commonroad.scenario.traffic_light import TrafficLightCycle
    return TrafficLightCycle([cyc_el(d, "RED"), cyc_el(3, "GREEN")], time_offset=off, active=True)


def incoming(i=21, **kw):
    from commonroad.scenario.intersection import IntersectionIncomingElement
    d = dict(incoming_id=i, incoming_lanelets={1, 9}, successors_right={2}, successors_straight={3, 11}, successors_left={4}, left_of=22)
    d.update(kw)
    return IntersectionIncomingElement(**d)


def lanelet(i=1, dx=0.0, **kw):
    import numpy as np
    from commonroad.scenario.lanelet import Lanelet
    d = dict(left_vertices=np.array([[0.0 + dx, 1.0], [5.0, 1.0], [10.0, 1.5]]), center_vertices=np.array([[0.0 + dx, 0.0], [5.0, 0.0], [10.0, 0.5]]),
             right_vertices=np.array([[0.0 + dx, -1.0], [5.0, -1.0], [10.0, -0.5]]), lanelet_id=i)
    d.update(kw)
    return Lanelet(**d)


def goal_state(t=(2, 5), pos=True, v=True):
    from commonroad.common.util import Interval, AngleInterval
    from commonroad.scenario.state import CustomState
    kw = dict(time_step=Interval(*t))
    if pos:
        kw["position"] = rect()
    if v:
        kw["velocity"] = Interval(0.0, 5.0)
        kw["orientation"] = AngleInterval(-0.5, 0.5)
    return CustomState(**kw)


def goal(n=1, lan=None, t=(2, 5)):
    from commonroad.planning.goal import GoalRegion
    return GoalRegion([goal_state(t=t) for _ in range(n)], lan)


def pproblem(i=100, x=1.0, t=(2, 5)):
    from commonroad.planning.planning_problem import PlanningProblem
    return PlanningProblem(i, init_state(x=x), goal(t=t))


def area_border(i=5, **kw):
    import numpy as np
    from commonroad.scenario.area import AreaBorder
    from commonroad.common.common_lanelet import LineMarking
    d = dict(area_border_id=i, border_vertices=np.array([[0.0, 0.0], [1.0, 0.0], [2.0, 1.0]]), adjacent=[1, 9], line_marking=LineMarking.DASHED)
    d.update(kw)
    return AreaBorder(**d)


def time_(h=10):
    from commonroad.common.util import Time
    return Time(h, 30, 2, 3, 2020)


def geo(x=1.0):
    from commonroad.scenario.scenario import GeoTransformation
    return GeoTransformation("+proj=utm", x, 2.0, 0.1, 1.0)


def env(w="CLEAR"):
    from commonroad.scenario.scenario import Environment, TimeOfDay, Weather, Underground
    return Environment(time_(), TimeOfDay.NOON, Weather[w], Underground.DIRTY)


def location(g=1.0):
    from commonroad.scenario.scenario import Location
    return Location(2867714, 48.26, 11.67, geo(g), env())


def sid(**kw):
    from commonroad.scenario.scenario import ScenarioID
    d = dict(cooperative=False, country_id="DEU", map_name="A9", map_id=2, configuration_id=1, obstacle_behavior="T", prediction_id=1)
    d.update(kw)
    return ScenarioID(**d)


def network(n=2, dx=0.0, sign=True):
    import numpy as np
    from commonroad.scenario.lanelet import LaneletNetwork
    from commonroad.scenario.traffic_sign import TrafficSign
    net = LaneletNetwork()
    for i in range(1, n + 1):
        net.add_lanelet(lanelet(i, dx=dx if i == 1 else 0.0))
    if sign:
        net.add_traffic_sign(TrafficSign(10, [sign_el()], {1}, A(1, 1)), {1})
    return net


# ---------------------------------------------------------------------------------------- class table

def _E(modpath, name):
    import importlib
    return getattr(importlib.import_module(modpath), name)


def _same_number_other_country():
    """sign ids of OTHER countries' catalogues that carry the same catalogue number as the base ids (Germany STOP / MAX_SPEED): different enum
    members, hence different attribute values"""
    import enum
    from commonroad.scenario import traffic_sign as ts
    base = [ts.TrafficSignIDGermany.STOP, ts.TrafficSignIDGermany.MAX_SPEED]
    out = []
    for n in sorted(dir(ts)):
        c = getattr(ts, n)
        if isinstance(c, type) and issubclass(c, enum.Enum) and n.startswith("TrafficSignID") and c not in (ts.TrafficSignIDGermany, ts.TrafficSignIDZamunda):
            for m in c:
                if any(m.value == b.value for b in base):
                    out.append(lambda m=m: m)
    return out[:8]


def table():
    """name -> dict(cls, default: kwargs factory, full: kwargs factory, alts: {param: [factories]}, perms: {param: [factories]},
                    attr: {param: attribute name}, container: bool)"""
    import numpy as np
    from commonroad.common.util import Interval, AngleInterval
    from commonroad.common.common_lanelet import LineMarking, LaneletType, RoadUser
    from commonroad.scenario.obstacle import ObstacleType
    from commonroad.scenario.traffic_sign import TrafficSignIDGermany, TrafficSignIDZamunda
    from commonroad.scenario.traffic_light import TrafficLightState, TrafficLightDirection
    from commonroad.scenario.area import AreaType
    from commonroad.scenario.scenario import Tag, TimeOfDay, Weather, Underground
    T = {}

    def real_alts(v):
        return [lambda v=v: v + EPS, lambda v=v: v * 2 + 1]

    def arr_alts(*v):
        out = []
        for i in range(len(v)):
            w = list(v); w[i] += EPS
            out.append(lambda w=tuple(w): A(*w))
        w = list(v); w[0] += 1.0
        out.append(lambda w=tuple(w): A(*w))
        return out

    T["Rectangle"] = dict(cls=_E("commonroad.geometry.shape", "Rectangle"),
                          default=lambda: dict(length=4.0, width=2.0),
                          full=lambda: dict(length=4.0, width=2.0, center=A(1, 2), orientation=0.3),
                          alts=dict(length=real_alts(4.0), width=real_alts(2.0), center=arr_alts(1.0, 2.0),
                                    orientation=[lambda: 0.3 + EPS, lambda: -0.3, lambda: 0.3 + 2 * math.pi - 2 * math.pi + 1.0]))
    T["Circle"] = dict(cls=_E("commonroad.geometry.shape", "Circle"), default=lambda: dict(radius=1.5),
                       full=lambda: dict(radius=1.5, center=A(1, 2)), alts=dict(radius=real_alts(1.5), center=arr_alts(1.0, 2.0)))
    T["Polygon"] = dict(cls=_E("commonroad.geometry.shape", "Polygon"),
                        default=lambda: dict(vertices=np.array([[0.0, 0.0], [4.0, 0.0], [4.0, 3.0], [0.0, 3.0]])),
                        full=lambda: dict(vertices=np.array([[0.0, 0.0], [4.0, 0.0], [4.0, 3.0], [2.0, 5.0], [0.0, 3.0]])),
                        alts=dict(vertices=[lambda: np.array([[0.0, 0.0], [4.0 + EPS, 0.0], [4.0, 3.0], [0.0, 3.0]]),
                                            lambda: np.array([[0.0, 0.0], [4.0, 0.0], [4.0, 3.0 + EPS], [0.0, 3.0]]),
                                            lambda: np.array([[0.0, 0.0], [5.0, 0.0], [4.0, 3.0], [0.0, 3.0]]),
                                            lambda: np.array([[0.0, 0.0], [4.0, 0.0], [4.0, 3.0]])]))
    T["ShapeGroup"] = dict(cls=_E("commonroad.geometry.shape", "ShapeGroup"), default=lambda: dict(shapes=[rect()]),
                           full=lambda: dict(shapes=[rect(), circ(), poly()]),
                           alts=dict(shapes=[lambda: [rect(l=4.0 + EPS)], lambda: [rect(), circ(r=1.6), poly()], lambda: [rect(), circ()],
                                             lambda: [circ()], lambda: [rect(), circ(), poly(), circ(2.0)]]))
    T["Interval"] = dict(cls=Interval, default=lambda: dict(start=0.5, end=2.0), full=lambda: dict(start=-1, end=3),
                         alts=dict(start=[lambda: 0.5 + EPS, lambda: -2.0], end=[lambda: 3 + EPS, lambda: 4]))
    T["AngleInterval"] = dict(cls=AngleInterval, default=lambda: dict(start=-0.5, end=0.5), full=lambda: dict(start=1.0, end=4.5),
                              alts=dict(start=[lambda: -0.5 + EPS if False else -0.6, lambda: -0.5 - EPS], end=[lambda: 4.5 + EPS, lambda: 4.6]))
    # ---- states: introspected
    from commonroad.scenario import state as st_mod
    for cls in st_mod.SpecificStateClasses:
        fields = [f.name for f in dataclasses.fields(cls)]

        def full(cls=cls, fields=fields):
            kw = {}
            for j, f in enumerate(fields):
                if f == "time_step":
                    kw[f] = 3
                elif f == "position":
                    kw[f] = A(1.0, 2.0)
                else:
                    kw[f] = 0.25 * (j + 1)
            return kw
        alts = {}
        for j, f in enumerate(fields):
            if f == "time_step":
                alts[f] = [lambda: 4, lambda: Interval(3, 4)]
            elif f == "position":
                alts[f] = arr_alts(1.0, 2.0) + [lambda: rect(), lambda: circ()]
            else:
                v = 0.25 * (j + 1)
                alts[f] = [lambda v=v: v + EPS, lambda v=v: -v, lambda v=v: Interval(v, v + 1.0), lambda: None]
        T[cls.__name__] = dict(cls=cls, default=lambda: dict(time_step=3), full=full, alts=alts)
    T["CustomState"] = dict(cls=st_mod.CustomState, default=lambda: dict(time_step=3),
                            full=lambda: dict(time_step=Interval(2, 5), position=rect(), velocity=Interval(0.0, 5.0), orientation=AngleInterval(-0.5, 0.5)),
                            alts=dict(time_step=[lambda: Interval(2, 6), lambda: 4],
                                      position=[lambda: rect(l=4.0 + EPS), lambda: circ(), lambda: A(1.0, 2.0)],
                                      velocity=[lambda: Interval(0.0, 5.0 + EPS), lambda: 2.0],
                                      orientation=[lambda: AngleInterval(-0.5, 0.6), lambda: 0.1],
                                      acceleration=[lambda: 1.0]))
    T["SignalState"] = dict(cls=st_mod.SignalState, default=lambda: dict(time_step=1),
                            full=lambda: dict(time_step=1, horn=False, indicator_left=True, indicator_right=False, braking_lights=True,
                                              hazard_warning_lights=False, flashing_blue_lights=False),
                            alts={k: [lambda k=k: (k in ("horn", "indicator_right", "hazard_warning_lights", "flashing_blue_lights"))]
                                  for k in ("horn", "indicator_left", "indicator_right", "braking_lights", "hazard_warning_lights", "flashing_blue_lights")}
                            | {"time_step": [lambda: 2]})
    T["Trajectory"] = dict(cls=_E("commonroad.scenario.trajectory", "Trajectory"),
                           default=lambda: dict(initial_time_step=1, state_list=[ks(1)]),
                           full=lambda: dict(initial_time_step=1, state_list=[ks(1), ks(2, 2.0), ks(3, 3.0)]),
                           alts=dict(state_list=[lambda: [ks(1, x=1.0 + EPS)], lambda: [ks(1, v=3.5)], lambda: [ks(1), ks(2, 2.0)],
                                                 lambda: [ks(1), ks(2, 2.0), ks(3, 3.0 + EPS)], lambda: [ks(1), ks(2, 2.0, o=0.2), ks(3, 3.0)]]),
                           joint=[dict(initial_time_step=lambda: 2, state_list=lambda: [ks(2)])])
    T["Occupancy"] = dict(cls=_E("commonroad.prediction.prediction", "Occupancy"), default=lambda: dict(time_step=1, shape=rect()),
                          full=lambda: dict(time_step=Interval(1, 3), shape=_E("commonroad.geometry.shape", "ShapeGroup")([rect(), circ()])),
                          alts=dict(time_step=[lambda: 2, lambda: Interval(1, 4)], shape=[lambda: rect(l=4.0 + EPS), lambda: circ(), lambda: rect(c=(1.0, 2.0 + EPS))]))
    T["SetBasedPrediction"] = dict(cls=_E("commonroad.prediction.prediction", "SetBasedPrediction"),
                                   default=lambda: dict(initial_time_step=1, occupancy_set=[occ(1)]),
                                   full=lambda: dict(initial_time_step=1, occupancy_set=[occ(1), occ(2), occ(3)]),
                                   alts=dict(occupancy_set=[lambda: [occ(1, EPS)], lambda: [occ(1), occ(2)], lambda: [occ(1), occ(2, 0.5), occ(3)]]),
                                   joint=[dict(initial_time_step=lambda: 2, occupancy_set=lambda: [occ(2)])])
    T["TrajectoryPrediction"] = dict(cls=_E("commonroad.prediction.prediction", "TrajectoryPrediction"),
                                     default=lambda: dict(trajectory=traj(), shape=rect(c=(0, 0), o=0.0)),
                                     full=lambda: dict(trajectory=traj(), shape=rect(c=(0, 0), o=0.0), center_lanelet_assignment={1: {1, 9}, 2: {2}},
                                                       shape_lanelet_assignment={1: {1, 9, 17}, 2: {2}}),
                                     alts=dict(trajectory=[lambda: traj(dx=EPS), lambda: traj(dx=1.0), lambda: traj(n=3)],
                                               shape=[lambda: rect(l=4.0 + EPS, c=(0, 0), o=0.0), lambda: circ(c=(0, 0))],
                                               center_lanelet_assignment=[lambda: {1: {1}, 2: {2}}, lambda: {1: {1, 9}, 2: {3}}],
                                               shape_lanelet_assignment=[lambda: {1: {1, 9}, 2: {2}}, lambda: {1: {1, 9, 17}}]),
                                     perms=dict(center_lanelet_assignment=[lambda: {2: {2}, 1: {9, 1}}],
                                                shape_lanelet_assignment=[lambda: {2: {2}, 1: {17, 9, 1}}, lambda: {1: {9, 17, 1}, 2: {2}}]))
    obst_alts = dict(obstacle_id=[lambda: 8], obstacle_type=[lambda: ObstacleType.TRUCK],
                     obstacle_shape=[lambda: rect(l=4.0 + EPS, c=(0, 0), o=0.0), lambda: circ(c=(0, 0))],
                     initial_state=[lambda: init_state(x=1.0 + EPS), lambda: init_state(v=4.0), lambda: init_state(t=1)],
                     initial_center_lanelet_ids=[lambda: {1}, lambda: {1, 9, 17}], initial_shape_lanelet_ids=[lambda: {1, 9}, lambda: {2}],
                     initial_signal_state=[lambda: sig(0, horn=True), lambda: sig(0, braking_lights=True)],
                     signal_series=[lambda: [sig(1)], lambda: [sig(1), sig(2, horn=True)], lambda: [sig(1), sig(2), sig(3)]])
    obst_perms = dict(initial_center_lanelet_ids=[lambda: {9, 1}], initial_shape_lanelet_ids=[lambda: {17, 9, 1}, lambda: {9, 17, 1}])
    obst_full = dict(obstacle_id=7, initial_center_lanelet_ids=lambda: {1, 9}, initial_shape_lanelet_ids=lambda: {1, 9, 17},
                     initial_signal_state=lambda: sig(0), signal_series=lambda: [sig(1), sig(2)])

    def mk_full(extra):
        def f():
            kw = {k: (v() if callable(v) else v) for k, v in obst_full.items()}
            kw.update({k: v() for k, v in extra.items()})
            return kw
        return f
    T["StaticObstacle"] = dict(cls=_E("commonroad.scenario.obstacle", "StaticObstacle"),
                               default=lambda: dict(obstacle_id=7, obstacle_type=ObstacleType.PARKED_VEHICLE, obstacle_shape=rect(c=(0, 0), o=0.0), initial_state=init_state()),
                               full=mk_full(dict(obstacle_type=lambda: ObstacleType.PARKED_VEHICLE, obstacle_shape=lambda: rect(c=(0, 0), o=0.0), initial_state=init_state)),
                               alts=obst_alts, perms=obst_perms, container=True)
    dyn_alts = dict(obst_alts)
    dyn_alts.update(prediction=[lambda: tpred(dx=EPS), lambda: tpred(dx=1.0), lambda: spred(), lambda: None],
                    external_dataset_id=[lambda: 5],
                    history=[lambda: [ks(-1)], lambda: [ks(-2), ks(-1, x=1.5)]], signal_history=[lambda: [sig(-1)]],
                    center_lanelet_ids_history=[lambda: [{1}], lambda: [{1, 9}, {2}]], shape_lanelet_ids_history=[lambda: [{1}], lambda: [{1, 9}, {3}]],
                    initial_meta_information_state=[lambda: meta(3), lambda: None], meta_information_series=[lambda: [meta(1)], lambda: [meta(2), meta(1)]])
    T["DynamicObstacle"] = dict(cls=_E("commonroad.scenario.obstacle", "DynamicObstacle"),
                                default=lambda: dict(obstacle_id=7, obstacle_type=ObstacleType.CAR, obstacle_shape=rect(c=(0, 0), o=0.0), initial_state=init_state()),
                                full=mk_full(dict(obstacle_type=lambda: ObstacleType.CAR, obstacle_shape=lambda: rect(c=(0, 0), o=0.0), initial_state=init_state,
                                                  prediction=tpred, external_dataset_id=lambda: 4, history=lambda: [ks(-2), ks(-1)],
                                                  signal_history=lambda: [sig(-2), sig(-1)], center_lanelet_ids_history=lambda: [{1, 9}, {2}],
                                                  shape_lanelet_ids_history=lambda: [{1, 9}, {2}],
                                                  initial_meta_information_state=lambda: meta(1), meta_information_series=lambda: [meta(1), meta(2)])),
                                alts=dyn_alts, perms=dict(obst_perms, center_lanelet_ids_history=[lambda: [{9, 1}, {2}]],
                                                          initial_meta_information_state=[lambda: meta(1, order=True)]), container=True)
    T["MetaInformationState"] = dict(cls=_E("commonroad.scenario.state", "MetaInformationState"), default=lambda: dict(),
                                     full=lambda: dict(meta_data_str={"a": "b", "c": "d"}, meta_data_int={"k": 1}, meta_data_float={"f": 0.5}, meta_data_bool={"t": True}),
                                     alts=dict(meta_data_str=[lambda: {"a": "x", "c": "d"}, lambda: {"a": "b"}], meta_data_int=[lambda: {"k": 2}], meta_data_float=[lambda: {"f": 0.5 + EPS}, lambda: {"f": 1.5}],
                                               meta_data_bool=[lambda: {"t": False}]),
                                     perms=dict(meta_data_str=[lambda: {"c": "d", "a": "b"}]))
    T["PhantomObstacle"] = dict(cls=_E("commonroad.scenario.obstacle", "PhantomObstacle"), default=lambda: dict(obstacle_id=7),
                                full=lambda: dict(obstacle_id=7, prediction=spred()),
                                alts=dict(obstacle_id=[lambda: 8], prediction=[lambda: spred(EPS), lambda: spred(t0=2)]))
    T["EnvironmentObstacle"] = dict(cls=_E("commonroad.scenario.obstacle", "EnvironmentObstacle"),
                                    default=lambda: dict(obstacle_id=7, obstacle_type=ObstacleType.BUILDING, obstacle_shape=poly()),
                                    full=lambda: dict(obstacle_id=7, obstacle_type=ObstacleType.BUILDING, obstacle_shape=rect()),
                                    alts=dict(obstacle_id=[lambda: 8], obstacle_type=[lambda: ObstacleType.PILLAR],
                                              obstacle_shape=[lambda: poly(EPS), lambda: circ()]))
    T["StopLine"] = dict(cls=_E("commonroad.common.common_lanelet", "StopLine"),
                         default=lambda: dict(start=A(0, 0), end=A(0, 3), line_marking=LineMarking.SOLID),
                         full=lambda: dict(start=A(0, 0), end=A(0, 3), line_marking=LineMarking.SOLID, traffic_sign_ref={10, 18}, traffic_light_ref={11, 19}),
                         alts=dict(start=arr_alts(0.0, 0.0), end=arr_alts(0.0, 3.0), line_marking=[lambda: LineMarking.DASHED],
                                   traffic_sign_ref=[lambda: {10}, lambda: {10, 18, 26}], traffic_light_ref=[lambda: {11}, lambda: {12, 19}]),
                         perms=dict(traffic_sign_ref=[lambda: {18, 10}], traffic_light_ref=[lambda: {19, 11}]))
    T["Lanelet"] = dict(cls=_E("commonroad.scenario.lanelet", "Lanelet"),
                        default=lambda: dict(left_vertices=np.array([[0.0, 1.0], [5.0, 1.0], [10.0, 1.5]]), center_vertices=np.array([[0.0, 0.0], [5.0, 0.0], [10.0, 0.5]]),
                                             right_vertices=np.array([[0.0, -1.0], [5.0, -1.0], [10.0, -0.5]]), lanelet_id=1),
                        full=lambda: dict(left_vertices=np.array([[0.0, 1.0], [5.0, 1.0], [10.0, 1.5]]), center_vertices=np.array([[0.0, 0.0], [5.0, 0.0], [10.0, 0.5]]),
                                          right_vertices=np.array([[0.0, -1.0], [5.0, -1.0], [10.0, -0.5]]), lanelet_id=1, predecessor=[2, 10], successor=[3, 11],
                                          adjacent_left=4, adjacent_left_same_direction=True, adjacent_right=5, adjacent_right_same_direction=False,
                                          line_marking_left_vertices=LineMarking.DASHED, line_marking_right_vertices=LineMarking.SOLID,
                                          stop_line=stopline(), lanelet_type={LaneletType.URBAN, LaneletType.MAIN_CARRIAGE_WAY},
                                          user_one_way={RoadUser.CAR, RoadUser.BUS}, user_bidirectional={RoadUser.BICYCLE, RoadUser.PEDESTRIAN},
                                          traffic_signs={10, 18}, traffic_lights={11, 19}, adjacent_areas={30, 38}),
                        alts=dict(left_vertices=[lambda: np.array([[0.0, 1.0 + EPS], [5.0, 1.0], [10.0, 1.5]]), lambda: np.array([[0.0, 1.0], [5.0, 1.2], [10.0, 1.5]])],
                                  center_vertices=[lambda: np.array([[0.0, 0.0], [5.0, 0.0], [10.0, 0.5 + EPS]]), lambda: np.array([[0.0, 0.1], [5.0, 0.0], [10.0, 0.5]])],
                                  right_vertices=[lambda: np.array([[0.0, -1.0], [5.0 + EPS, -1.0], [10.0, -0.5]]), lambda: np.array([[0.0, -1.0], [5.0, -1.3], [10.0, -0.5]])],
                                  lanelet_id=[lambda: 6], predecessor=[lambda: [2], lambda: [2, 10, 18], lambda: [2, 10, 3]], successor=[lambda: [3], lambda: [11, 4], lambda: [3, 11, 10]],
                                  adjacent_left=[lambda: 7], adjacent_left_same_direction=[lambda: False], adjacent_right=[lambda: 7],
                                  adjacent_right_same_direction=[lambda: True], line_marking_left_vertices=[lambda: LineMarking.BROAD_SOLID],
                                  line_marking_right_vertices=[lambda: LineMarking.DASHED],
                                  stop_line=[lambda: stopline(end=A(0.0, 3.0 + EPS)), lambda: stopline(traffic_sign_ref={18})],
                                  lanelet_type=[lambda: {LaneletType.URBAN}, lambda: {LaneletType.HIGHWAY, LaneletType.MAIN_CARRIAGE_WAY}],
                                  # (the third alternatives take a member of the *sibling* attribute of 'full': an equality that
                                  #  compares the union / concatenation of two siblings cannot see them - seed C12_r10_1)
                                  user_one_way=[lambda: {RoadUser.CAR}, lambda: {RoadUser.CAR, RoadUser.TRUCK}, lambda: {RoadUser.CAR, RoadUser.BUS, RoadUser.BICYCLE}],
                                  user_bidirectional=[lambda: {RoadUser.BICYCLE}, lambda: {RoadUser.BICYCLE, RoadUser.CAR},
                                                      lambda: {RoadUser.BICYCLE, RoadUser.PEDESTRIAN, RoadUser.BUS}],
                                  traffic_signs=[lambda: {10}, lambda: {10, 18, 26}, lambda: {10, 18, 11}],
                                  traffic_lights=[lambda: {11}, lambda: {19, 12}, lambda: {11, 19, 18}],
                                  adjacent_areas=[lambda: {30}, lambda: {30, 39}]),
                        perms=dict(predecessor=[lambda: [10, 2]], successor=[lambda: [11, 3]], traffic_signs=[lambda: {18, 10}],
                                   traffic_lights=[lambda: {19, 11}], adjacent_areas=[lambda: {38, 30}],
                                   lanelet_type=[lambda: {LaneletType.MAIN_CARRIAGE_WAY, LaneletType.URBAN}],
                                   user_one_way=[lambda: {RoadUser.BUS, RoadUser.CAR}]),
                        attr=dict(adjacent_left="adj_left", adjacent_right="adj_right", adjacent_left_same_direction="adj_left_same_direction",
                                  adjacent_right_same_direction="adj_right_same_direction"), container=True)
    T["TrafficSignElement"] = dict(cls=_E("commonroad.scenario.traffic_sign", "TrafficSignElement"),
                                   default=lambda: dict(traffic_sign_element_id=TrafficSignIDGermany.STOP, additional_values=[]),
                                   full=lambda: dict(traffic_sign_element_id=TrafficSignIDGermany.MAX_SPEED, additional_values=["50", "x"]),
                                   alts=dict(traffic_sign_element_id=[lambda: TrafficSignIDGermany.YIELD, lambda: TrafficSignIDZamunda.MAX_SPEED] + _same_number_other_country(),
                                             additional_values=[lambda: ["60", "x"], lambda: ["50"]]),
                                   perms=dict(additional_values=[lambda: ["x", "50"]]))
    T["TrafficSign"] = dict(cls=_E("commonroad.scenario.traffic_sign", "TrafficSign"),
                            default=lambda: dict(traffic_sign_id=10, traffic_sign_elements=[sign_el()], first_occurrence={1}, position=A(1, 2)),
                            full=lambda: dict(traffic_sign_id=10, traffic_sign_elements=[sign_el(), sign_el("60")], first_occurrence={1, 9}, position=A(1, 2), virtual=True),
                            alts=dict(traffic_sign_id=[lambda: 12], traffic_sign_elements=[lambda: [sign_el("70")], lambda: [sign_el(), sign_el("60"), sign_el("80")]],
                                      first_occurrence=[lambda: {1, 9, 17}, lambda: {2}], position=arr_alts(1.0, 2.0), virtual=[lambda: True, lambda: False]),
                            perms=dict(first_occurrence=[lambda: {9, 1}]))
    T["TrafficLightCycleElement"] = dict(cls=_E("commonroad.scenario.traffic_light", "TrafficLightCycleElement"),
                                         default=lambda: dict(state=TrafficLightState.RED, duration=2), full=lambda: dict(state=TrafficLightState.GREEN, duration=5),
                                         alts=dict(state=[lambda: TrafficLightState.YELLOW], duration=[lambda: 3]))
    T["TrafficLightCycle"] = dict(cls=_E("commonroad.scenario.traffic_light", "TrafficLightCycle"),
                                  default=lambda: dict(cycle_elements=[cyc_el()]),
                                  full=lambda: dict(cycle_elements=[cyc_el(2, "RED"), cyc_el(3, "GREEN")], time_offset=1, active=True),
                                  alts=dict(cycle_elements=[lambda: [cyc_el(3)], lambda: [cyc_el(3, "GREEN"), cyc_el(2, "RED")], lambda: [cyc_el(2, "RED"), cyc_el(3, "GREEN"), cyc_el(1, "YELLOW")]],
                                            time_offset=[lambda: 2], active=[lambda: False]))
    T["TrafficLight"] = dict(cls=_E("commonroad.scenario.traffic_light", "TrafficLight"),
                             default=lambda: dict(traffic_light_id=11, position=A(1, 2), traffic_light_cycle=cycle()),
                             full=lambda: dict(traffic_light_id=11, position=A(1, 2), traffic_light_cycle=cycle(), color=[TrafficLightState.RED, TrafficLightState.GREEN],
                                               active=True, direction=TrafficLightDirection.LEFT, shape=rect(l=0.5, w=0.2)),
                             alts=dict(traffic_light_id=[lambda: 13], position=arr_alts(1.0, 2.0), traffic_light_cycle=[lambda: cycle(off=2), lambda: cycle(d=4)],
                                       color=[lambda: [TrafficLightState.RED], lambda: [TrafficLightState.RED, TrafficLightState.YELLOW]],
                                       active=[lambda: False], direction=[lambda: TrafficLightDirection.RIGHT, lambda: TrafficLightDirection.ALL],
                                       shape=[lambda: rect(l=0.5 + EPS, w=0.2), lambda: rect(l=0.6, w=0.2)]))
    T["IntersectionIncomingElement"] = dict(cls=_E("commonroad.scenario.intersection", "IntersectionIncomingElement"),
                                            default=lambda: dict(incoming_id=21),
                                            full=lambda: dict(incoming_id=21, incoming_lanelets={1, 9}, successors_right={2, 10}, successors_straight={3, 11},
                                                              successors_left={4, 12}, left_of=22),
                                            alts=dict(incoming_id=[lambda: 23], incoming_lanelets=[lambda: {1}, lambda: {1, 9, 17}], successors_right=[lambda: {2}, lambda: {5, 10}],
                                                      successors_straight=[lambda: {3}], successors_left=[lambda: {4}], left_of=[lambda: 24]),
                                            perms=dict(incoming_lanelets=[lambda: {9, 1}], successors_right=[lambda: {10, 2}], successors_straight=[lambda: {11, 3}],
                                                       successors_left=[lambda: {12, 4}]))
    T["Intersection"] = dict(cls=_E("commonroad.scenario.intersection", "Intersection"),
                             default=lambda: dict(intersection_id=20, incomings=[incoming(21)]),
                             full=lambda: dict(intersection_id=20, incomings=[incoming(21), incoming(22, left_of=21)], crossings={5, 13}),
                             alts=dict(intersection_id=[lambda: 25], incomings=[lambda: [incoming(21, left_of=23)], lambda: [incoming(21), incoming(22, left_of=21), incoming(23)],
                                                                                 lambda: [incoming(21), incoming(24, left_of=21)], lambda: [incoming(22, left_of=21)]],
                                       crossings=[lambda: {5}, lambda: {5, 13, 21}]),
                             perms=dict(crossings=[lambda: {13, 5}], incomings=[lambda: [incoming(22, left_of=21), incoming(21)]]), container=True)
    T["AreaBorder"] = dict(cls=_E("commonroad.scenario.area", "AreaBorder"),
                           default=lambda: dict(area_border_id=5, border_vertices=np.array([[0.0, 0.0], [1.0, 0.0], [2.0, 1.0]])),
                           full=lambda: dict(area_border_id=5, border_vertices=np.array([[0.0, 0.0], [1.0, 0.0], [2.0, 1.0]]), adjacent=[1, 9], line_marking=LineMarking.DASHED),
                           alts=dict(area_border_id=[lambda: 6], border_vertices=[lambda: np.array([[0.0, 0.0], [1.0 + EPS, 0.0], [2.0, 1.0]]), lambda: np.array([[0.0, 0.0], [1.0, 0.5], [2.0, 1.0]])],
                                     adjacent=[lambda: [1], lambda: [1, 9, 17]], line_marking=[lambda: LineMarking.SOLID]),
                           )  # adjacent is a *list*; its order is not asserted either way
    T["Area"] = dict(cls=_E("commonroad.scenario.area", "Area"), default=lambda: dict(area_id=30),
                     full=lambda: dict(area_id=30, border=[area_border(5), area_border(6)], area_types={AreaType.BUS_STOP, AreaType.PARKING}),
                     alts=dict(area_id=[lambda: 31], border=[lambda: [area_border(5)], lambda: [area_border(5), area_border(7)], lambda: [area_border(5), area_border(6, adjacent=[2])]],
                               area_types=[lambda: {AreaType.BUS_STOP}, lambda: {AreaType.BUS_STOP, AreaType.BORDER}]),
                     perms=dict(area_types=[lambda: {AreaType.PARKING, AreaType.BUS_STOP}]))
    T["GoalRegion"] = dict(cls=_E("commonroad.planning.goal", "GoalRegion"), default=lambda: dict(state_list=[goal_state()]),
                           full=lambda: dict(state_list=[goal_state(), goal_state(t=(3, 6))], lanelets_of_goal_position={0: [1, 9], 1: [2]}),
                           alts=dict(state_list=[lambda: [goal_state(t=(2, 6))], lambda: [goal_state(), goal_state(t=(3, 7))], lambda: [goal_state(), goal_state(t=(3, 6)), goal_state()],
                                                 lambda: [goal_state(v=False)]],
                                     lanelets_of_goal_position=[lambda: {0: [1], 1: [2]}, lambda: {0: [1, 9], 1: [3]}, lambda: {0: [1, 9]}]),
                           either=dict(lanelets_of_goal_position=[lambda: {0: [9, 1], 1: [2]}, lambda: {1: [2], 0: [1, 9]}, lambda: {0: [1, 9, 1], 1: [2]}]))
    T["PlanningProblem"] = dict(cls=_E("commonroad.planning.planning_problem", "PlanningProblem"),
                                default=lambda: dict(planning_problem_id=100, initial_state=init_state(), goal_region=goal()),
                                full=lambda: dict(planning_problem_id=100, initial_state=init_state(), goal_region=goal(2, {0: [1, 9], 1: [2]})),
                                alts=dict(planning_problem_id=[lambda: 101], initial_state=[lambda: init_state(x=1.0 + EPS), lambda: init_state(v=4.0)],
                                          goal_region=[lambda: goal(t=(2, 6)), lambda: goal(3)]))
    T["PlanningProblemSet"] = dict(cls=_E("commonroad.planning.planning_problem", "PlanningProblemSet"), default=lambda: dict(),
                                   full=lambda: dict(planning_problem_list=[pproblem(100), pproblem(101)]),
                                   alts=dict(planning_problem_list=[lambda: [pproblem(100)], lambda: [pproblem(100), pproblem(102)], lambda: [pproblem(100), pproblem(101, x=2.0)],
                                                                    lambda: [pproblem(100), pproblem(101, t=(2, 6))]]),
                                   perms=dict(planning_problem_list=[lambda: [pproblem(101), pproblem(100)]]),
                                   attr=dict(planning_problem_list="planning_problem_dict"))
    T["ScenarioID"] = dict(cls=_E("commonroad.scenario.scenario", "ScenarioID"), default=lambda: dict(),
                           full=lambda: dict(cooperative=True, country_id="DEU", map_name="A9", map_id=2, configuration_id=3, obstacle_behavior="T", prediction_id=[1, 2],
                                             scenario_version="2020a"),
                           alts=dict(cooperative=[lambda: True, lambda: False], country_id=[lambda: "USA"], map_name=[lambda: "B9"], map_id=[lambda: 3], configuration_id=[lambda: 4],
                                     obstacle_behavior=[lambda: "S"], prediction_id=[lambda: [1, 3], lambda: 2], scenario_version=[lambda: "2018b"]),
                           # the same value written in two accepted forms (a single prediction id as a number or as a one-element list, as from_benchmark_id
                           # yields it): whether the forms are equal is not stated, but equal objects need equal hashes
                           either_pairs=[(dict(prediction_id=lambda: 3), dict(prediction_id=lambda: [3])), (dict(prediction_id=lambda: 1), dict(prediction_id=lambda: [1])),
                                         (dict(prediction_id=lambda: [1, 2]), dict(prediction_id=lambda: [2, 1])), (dict(prediction_id=lambda: None), dict(prediction_id=lambda: []))])
    T["Time"] = dict(cls=_E("commonroad.common.util", "Time"), default=lambda: dict(hours=10, minutes=30), full=lambda: dict(hours=10, minutes=30, day=2, month=3, year=2020),
                     alts=dict(hours=[lambda: 11], minutes=[lambda: 31], day=[lambda: 3], month=[lambda: 4], year=[lambda: 2021]))
    T["GeoTransformation"] = dict(cls=_E("commonroad.scenario.scenario", "GeoTransformation"), default=lambda: dict(),
                                  full=lambda: dict(geo_reference="+proj=utm", x_translation=1.0, y_translation=2.0, z_rotation=0.1, scaling=1.0),
                                  alts=dict(geo_reference=[lambda: "+proj=x"], x_translation=[lambda: 1.0 + EPS, lambda: 5.0], y_translation=[lambda: 2.0 + EPS], z_rotation=[lambda: 0.1 + EPS, lambda: 0.2],
                                            scaling=[lambda: 1.0 + EPS, lambda: 2.0]))
    T["Environment"] = dict(cls=_E("commonroad.scenario.scenario", "Environment"), default=lambda: dict(),
                            full=lambda: dict(time=time_(), time_of_day=TimeOfDay.NOON, weather=Weather.CLEAR, underground=Underground.DIRTY),
                            alts=dict(time=[lambda: time_(11)], time_of_day=[lambda: TimeOfDay.NIGHT], weather=[lambda: Weather.HEAVY_RAIN], underground=[lambda: Underground.ICE]))
    T["Location"] = dict(cls=_E("commonroad.scenario.scenario", "Location"), default=lambda: dict(),
                         full=lambda: dict(geo_name_id=2867714, gps_latitude=48.26, gps_longitude=11.67, geo_transformation=geo(), environment=env()),
                         alts=dict(geo_name_id=[lambda: 123], gps_latitude=[lambda: 48.26 + EPS, lambda: 50.0], gps_longitude=[lambda: 11.67 + EPS, lambda: 12.0],
                                   geo_transformation=[lambda: geo(1.0 + EPS), lambda: geo(2.0)], environment=[lambda: env("CLOUDY")]))
    T["MapInformation"] = dict(cls=_E("commonroad.scenario.lanelet", "MapInformation"), default=lambda: dict(date=time_()),
                               full=lambda: dict(commonroad_version="2023a", map_id="DEU_X-1", date=time_(), author="a", affiliation="b", source="c", licence_name="d", licence_text="e"),
                               alts=dict(commonroad_version=[lambda: "2020a"], map_id=[lambda: "DEU_Y-1"], date=[lambda: time_(11)], author=[lambda: "aa"], affiliation=[lambda: "bb"],
                                         source=[lambda: "cc"], licence_name=[lambda: "dd"], licence_text=[lambda: "ee"]))
    return T


# networks and scenarios are built by operations rather than constructor parameters
def compound_cases():
    """name -> (base factory, [(label, variant factory)], [(label, equal-by-permutation factory)])"""
    import numpy as np
    from commonroad.scenario.lanelet import LaneletNetwork, MapInformation
    from commonroad.scenario.scenario import Scenario, Tag
    from commonroad.scenario.obstacle import StaticObstacle, ObstacleType
    from commonroad.scenario.traffic_sign import TrafficSign
    from commonroad.scenario.traffic_light import TrafficLight
    from commonroad.scenario.intersection import Intersection

    def net(order=(1, 2), dx=0.0, sign_pos=1.0, light=True, inter=True, extra=False, info=True):
        n = LaneletNetwork(MapInformation(date=time_())) if info else LaneletNetwork(MapInformation(date=time_(), author="zz"))
        for i in order:
            n.add_lanelet(lanelet(i, dx=dx if i == 1 else 0.0))
        if extra:
            n.add_lanelet(lanelet(3))
        n.add_traffic_sign(TrafficSign(10, [sign_el()], {1}, A(sign_pos, 1)), {1})
        if light:
            n.add_traffic_light(TrafficLight(11, A(2, 2), cycle()), {2})
        if inter:
            n.add_intersection(Intersection(20, [incoming(21, left_of=None)]))
        return n

    def scen(dt=0.1, order=("net", "o1", "o2"), o1x=1.0, tags=(Tag.URBAN, Tag.HIGHWAY), author="a", netkw=None, loc=True, sidkw=None):
        s = Scenario(dt, sid(**(sidkw or {})), author=author, tags=set(tags), affiliation="aff", source="src", location=location() if loc else None)
        for what in order:
            if what == "net":
                s.add_objects(net(**(netkw or {})))
            elif what == "net-through-the-network-object":
                # the same road network, put together through the scenario's LaneletNetwork object instead of Scenario.add_objects
                n_ = net(**(netkw or {}))
                tgt = s.lanelet_network
                tgt.information = n_.information
                for l_ in n_.lanelets:
                    tgt.add_lanelet(l_)
                for sg_ in n_.traffic_signs:
                    tgt.add_traffic_sign(sg_, set())
                for tl_ in n_.traffic_lights:
                    tgt.add_traffic_light(tl_, set())
                for it_ in n_.intersections:
                    tgt.add_intersection(it_)
            elif what == "o1":
                s.add_objects(StaticObstacle(30, ObstacleType.PARKED_VEHICLE, rect(c=(0, 0), o=0.0), init_state(x=o1x)))
            elif what == "o2":
                from commonroad.scenario.obstacle import DynamicObstacle
                s.add_objects(DynamicObstacle(31, ObstacleType.CAR, rect(c=(0, 0), o=0.0), init_state(), tpred()))
        return s
    return {
        "LaneletNetwork": (net, [("lanelet-vertex+eps", lambda: net(dx=EPS)), ("lanelet-added", lambda: net(extra=True)), ("sign-position", lambda: net(sign_pos=1.0 + EPS)),
                                 ("light-missing", lambda: net(light=False)), ("intersection-missing", lambda: net(inter=False)), ("map-information", lambda: net(info=False))],
                           [("lanelet-insertion-order", lambda: net(order=(2, 1)))]),
        "Scenario": (scen, [("dt", lambda: scen(dt=0.2)), ("obstacle-state+eps", lambda: scen(o1x=1.0 + EPS)), ("tags", lambda: scen(tags=(Tag.URBAN,))),
                            ("author", lambda: scen(author="b")), ("network", lambda: scen(netkw=dict(dx=EPS))), ("obstacle-missing", lambda: scen(order=("net", "o1"))),
                            ("location", lambda: scen(loc=False)), ("scenario-id", lambda: scen(sidkw=dict(map_id=3)))],
                     [("insertion-order", lambda: scen(order=("o2", "net", "o1"))), ("tag-order", lambda: scen(tags=(Tag.HIGHWAY, Tag.URBAN))),
                      ("network-built-through-the-network-object", lambda: scen(order=("net-through-the-network-object", "o1", "o2")))]),
    }


# ---------------------------------------------------------------------------------------- engine

def plain(o, depth=0):
    """plain-data image of a public attribute value, for the 'still visibly different after construction' guard"""
    import numpy as np
    import enum
    if depth > 8:
        return repr(o)
    if isinstance(o, enum.Enum):
        return ("enum", type(o).__name__, o.name)
    if o is None or isinstance(o, (bool, int, str)):
        return o
    if isinstance(o, float):
        return o
    if isinstance(o, np.generic):
        return o.item()
    if isinstance(o, np.ndarray):
        return ("arr", tuple(np.ravel(o).tolist()), o.shape)
    if isinstance(o, enum.Enum):
        return ("enum", type(o).__name__, o.name)
    if isinstance(o, (list, tuple)):
        return tuple(plain(x, depth + 1) for x in o)
    if isinstance(o, (set, frozenset)):
        return ("set", tuple(sorted((plain(x, depth + 1) for x in o), key=repr)))
    if isinstance(o, dict):
        return ("dict", tuple(sorted(((plain(k, depth + 1), plain(v, depth + 1)) for k, v in o.items()), key=repr)))
    d = {}
    if hasattr(o, "__dict__"):
        d.update(o.__dict__)
    for s in getattr(type(o), "__slots__", ()):
        if hasattr(o, s):
            d[s] = getattr(o, s)
    drop = ("_vertices", "_shapely_polygon", "_shapely_circle", "_min", "_max", "occupancy_set", "_distance", "_inner_distance", "_polygon",
            "_buffered_polygons", "_strtee", "_lanelet_id_index_by_id", "_initial_occupancy_shape")
    if type(o).__name__ == "Polygon":
        drop = tuple(k for k in drop if k != "_vertices")      # a polygon's vertices are its primary data (a rectangle's are a cache)
    return (type(o).__name__, tuple(sorted(((k, plain(v, depth + 1)) for k, v in d.items() if k not in drop), key=lambda kv: kv[0])))


def _try_hash(x):
    try:
        return ("ok", hash(x))
    except Exception as e:
        return ("raises:" + type(e).__name__, None)


def _eq(a, b):
    return bool(a == b)


def _check_reflexive(name, basek, mk, res, case):
    """x==x, deepcopy, rebuilt, hash"""
    x = mk()
    res.transitions += 1
    try:
        if not _eq(x, x):
            res.violation(f"C12|{name}|not-reflexive", f"{basek}", case)
        x2 = mk()
        if not (_eq(x, x2) and _eq(x2, x)):
            res.violation(f"C12|{name}|rebuilt-identical-unequal|base:{basek}", "two objects built from identical arguments are unequal", case)
        try:
            xc = copy.deepcopy(x)
            if not (_eq(x, xc) and _eq(xc, x)):
                res.violation(f"C12|{name}|deepcopy-unequal|base:{basek}", "", case)
        except Exception as e:
            res.violation(f"C12|{name}|deepcopy-raises:{type(e).__name__}", repr(e), case)
            xc = None
    except Exception as e:
        res.violation(f"C12|{name}|eq-raises:{type(e).__name__}", repr(e), case)
        return None
    h = _try_hash(x)
    if h[0] != "ok":
        res.violation(f"C12|{name}|hash-{h[0]}|base:{basek}", f"hash() of a {name} built with {basek} arguments", case)
    else:
        for other, lab in ((x2, "rebuilt"), (xc, "deepcopy")):
            if other is not None:
                h2 = _try_hash(other)
                if h2[0] == "ok" and h2[1] != h[1] and _eq(x, other):
                    res.violation(f"C12|{name}|equal-but-hash-differs:{lab}", "", case)
    res.evals += 1
    return x


def _check_variant(name, label, x_mk, y_mk, expect_equal, res, case, guard=None):
    res.evals += 1; res.transitions += 1
    x, y = x_mk(), y_mk()
    if guard is not None and not expect_equal:
        gx, gy = guard(x), guard(y)
        if gx == gy:
            res.guarded += 1
            res.outcomes["skipped-normalised-away"] += 1
            return
    res.nontrivial += 1
    try:
        a, b = _eq(x, y), _eq(y, x)
    except Exception as e:
        res.violation(f"C12|{name}|eq-raises:{type(e).__name__}|{label}", repr(e), case)
        return
    if a != b:
        res.violation(f"C12|{name}|eq-asymmetric:{label}", f"x==y {a}, y==x {b}", case)
    if expect_equal is None:
        # the statement does not say whether the order of this list matters: either answer is accepted, but equal objects need equal hashes
        if a and b:
            hx, hy = _try_hash(x), _try_hash(y)
            if hx[0] == "ok" and hy[0] == "ok" and hx[1] != hy[1]:
                res.violation(f"C12|{name}|equal-but-hash-differs:{label}", "objects that compare equal (list order) have different hashes", case)
        res.outcomes["list-order:" + ("equal" if (a and b) else "unequal")] += 1
        return
    if expect_equal:
        if not (a and b):
            res.violation(f"C12|{name}|{'representation' if '(as ' in label else 'order'}-dependent:{label}",
                          "same content (another insertion order / numeric representation) compares unequal", case)
        else:
            hx, hy = _try_hash(x), _try_hash(y)
            if hx[0] == "ok" and hy[0] == "ok" and hx[1] != hy[1]:
                res.violation(f"C12|{name}|equal-but-hash-differs:{label}", "", case)
    else:
        if a or b:
            res.violation(f"C12|{name}|eq-ignores:{label}", f"objects differing in {label} compare equal (x==y {a}, y==x {b})", case)
        hy = _try_hash(y)
        if hy[0] != "ok" and _try_hash(x)[0] == "ok":
            res.violation(f"C12|{name}|hash-{hy[0]}|variant:{label.split('=')[0]}", label, case)
    res.outcomes["equal" if (a and b) else "unequal"] += 1


def _check_setter_route(name, spec, basek, res):
    """objects reached through public setters: build the object with an alternative value of one parameter, use it (hash, compare), assign the
    base value through the attribute's public setter; if the attribute then reads like the base object's, the two must be equal with equal hashes"""
    import dataclasses
    cls, attr, mkkw = spec["cls"], spec.get("attr", {}), spec[basek]
    for p, alts in spec.get("alts", {}).items():
        a_name = attr.get(p, p)
        desc = getattr(cls, a_name, None)
        is_field = dataclasses.is_dataclass(cls) and a_name in {f.name for f in dataclasses.fields(cls)}
        if not (is_field or (isinstance(desc, property) and desc.fset is not None)):
            continue
        if p not in mkkw():
            continue
        for ai, alt in enumerate(alts):
            case = {"class": name, "base": basek, "setter": p, "alt": ai}
            try:
                kw = mkkw(); kw[p] = alt()
                y = cls(**kw)
            except Exception:
                continue
            x = cls(**mkkw())
            res.evals += 1; res.transitions += 1
            _try_hash(y)
            try:
                _eq(y, x)
                import warnings
                with warnings.catch_warnings():
                    warnings.simplefilter("ignore")
                    setattr(y, a_name, mkkw()[p])
            except Exception:
                res.guarded += 1; res.outcomes["setter-rejects"] += 1
                continue
            try:
                same = plain(getattr(y, a_name)) == plain(getattr(x, a_name))
            except Exception:
                same = False
            if not same:
                res.guarded += 1; res.outcomes["setter-without-effect(immutable attribute)"] += 1
                continue
            res.nontrivial += 1
            try:
                a, b = _eq(x, y), _eq(y, x)
            except Exception as e:
                res.violation(f"C12|{name}|eq-raises:{type(e).__name__}|after-setter:{p}", repr(e), case)
                continue
            if not (a and b):
                res.violation(f"C12|{name}|unequal-after-setter:{p}", f"object whose {a_name} was assigned the base value compares unequal to the base object (x==y {a}, y==x {b})", case)
            else:
                hx, hy = _try_hash(x), _try_hash(y)
                if hx[0] == "ok" and hy[0] == "ok" and hx[1] != hy[1]:
                    res.violation(f"C12|{name}|equal-but-hash-differs:after-setter:{p}", "", case)
            res.outcomes["setter-route"] += 1


def mutator_cases():
    """objects reached through in-place public mutators (adders / removers): (label, small object factory, mutation, directly constructed equivalent)"""
    import numpy as np
    from commonroad.scenario.lanelet import LaneletNetwork
    from commonroad.planning.planning_problem import PlanningProblemSet
    from commonroad.scenario.traffic_sign import TrafficSign
    from commonroad.scenario.traffic_light import TrafficLight
    from commonroad.scenario.trajectory import Trajectory
    C = []
    C.append(("Lanelet.add_traffic_sign_to_lanelet", lambda: lanelet(traffic_signs={10}), lambda o: o.add_traffic_sign_to_lanelet(18), lambda: lanelet(traffic_signs={10, 18})))
    C.append(("Lanelet.add_traffic_sign_to_lanelet(first)", lambda: lanelet(), lambda o: o.add_traffic_sign_to_lanelet(18), lambda: lanelet(traffic_signs={18})))
    C.append(("Lanelet.add_traffic_light_to_lanelet", lambda: lanelet(traffic_lights={11}), lambda o: o.add_traffic_light_to_lanelet(19), lambda: lanelet(traffic_lights={11, 19})))
    C.append(("Lanelet.add_adjacent_area_to_lanelet", lambda: lanelet(adjacent_areas={30}), lambda o: o.add_adjacent_area_to_lanelet(38), lambda: lanelet(adjacent_areas={30, 38})))
    C.append(("Lanelet.add_predecessor", lambda: lanelet(predecessor=[2]), lambda o: o.add_predecessor(10), lambda: lanelet(predecessor=[2, 10])))
    C.append(("Lanelet.add_successor", lambda: lanelet(successor=[3]), lambda o: o.add_successor(11), lambda: lanelet(successor=[3, 11])))
    C.append(("Lanelet.remove_predecessor", lambda: lanelet(predecessor=[2, 10]), lambda o: o.remove_predecessor(10), lambda: lanelet(predecessor=[2])))
    C.append(("Lanelet.remove_successor", lambda: lanelet(successor=[3, 11]), lambda o: o.remove_successor(11), lambda: lanelet(successor=[3])))

    def sign(i=10):
        return TrafficSign(i, [sign_el()], {1}, A(1.0, 2.0))

    def light(i=11):
        return TrafficLight(i, A(3.0, 2.0), cycle())
    C.append(("LaneletNetwork.add_lanelet", lambda: LaneletNetwork.create_from_lanelet_list([lanelet(1)]), lambda o: o.add_lanelet(lanelet(2, dx=0.5)),
              lambda: LaneletNetwork.create_from_lanelet_list([lanelet(1), lanelet(2, dx=0.5)])))
    C.append(("LaneletNetwork.remove_lanelet", lambda: LaneletNetwork.create_from_lanelet_list([lanelet(1), lanelet(2, dx=0.5)]), lambda o: o.remove_lanelet(2),
              lambda: LaneletNetwork.create_from_lanelet_list([lanelet(1)])))

    def net_with(sign_=False, light_=False):
        n = LaneletNetwork.create_from_lanelet_list([lanelet(1, traffic_signs={10} if sign_ else None, traffic_lights={11} if light_ else None)])
        return n
    def built(sign_=False, light_=False):
        n = LaneletNetwork.create_from_lanelet_list([lanelet(1)])
        if sign_:
            n.add_traffic_sign(sign(), {1})
        if light_:
            n.add_traffic_light(light(), {1})
        return n
    C.append(("LaneletNetwork.add_traffic_sign", lambda: LaneletNetwork.create_from_lanelet_list([lanelet(1)]), lambda o: o.add_traffic_sign(sign(), {1}), lambda: built(sign_=True)))
    C.append(("LaneletNetwork.add_traffic_light", lambda: LaneletNetwork.create_from_lanelet_list([lanelet(1)]), lambda o: o.add_traffic_light(light(), {1}), lambda: built(light_=True)))
    C.append(("PlanningProblemSet.add_planning_problem", lambda: PlanningProblemSet([pproblem(100)]), lambda o: o.add_planning_problem(pproblem(101)),
              lambda: PlanningProblemSet([pproblem(100), pproblem(101)])))
    C.append(("Trajectory.append_state", lambda: traj(n=2), lambda o: o.append_state(ks(t=3, x=3.0)), lambda: traj(n=3)))
    # a dynamic obstacle advanced with update_initial_state: with every optional argument left at its default the history lists receive the
    # obstacle's own (default: None) signal state and lanelet-id sets; the same object can be constructed directly from those lists
    from commonroad.scenario.obstacle import DynamicObstacle
    from commonroad.scenario.obstacle import ObstacleType as _OT

    def dyn(**kw):
        return DynamicObstacle(**dict(dict(obstacle_id=7, obstacle_type=_OT.CAR, obstacle_shape=rect(c=(0, 0), o=0.0), initial_state=init_state()), **kw))
    C.append(("DynamicObstacle.update_initial_state(defaults)", lambda: dyn(), lambda o: o.update_initial_state(init_state(t=1, x=2.0)),
              lambda: dyn(initial_state=init_state(t=1, x=2.0), history=[init_state()], signal_history=[None], center_lanelet_ids_history=[None], shape_lanelet_ids_history=[None])))
    C.append(("DynamicObstacle.update_initial_state(defaults,twice)", lambda: dyn(),
              lambda o: (o.update_initial_state(init_state(t=1, x=2.0)), o.update_initial_state(init_state(t=2, x=3.0), current_center_lanelet_ids={1}, current_shape_lanelet_ids={1, 9})),
              lambda: dyn(initial_state=init_state(t=2, x=3.0), history=[init_state(), init_state(t=1, x=2.0)], signal_history=[None, None], center_lanelet_ids_history=[None, None],
                          shape_lanelet_ids_history=[None, None], initial_center_lanelet_ids={1}, initial_shape_lanelet_ids={9, 1})))
    C.append(("DynamicObstacle.update_initial_state(with-ids)", lambda: dyn(initial_center_lanelet_ids={1, 9}, initial_shape_lanelet_ids={1, 9, 2}, initial_signal_state=sig(0)),
              lambda o: o.update_initial_state(init_state(t=1, x=2.0), sig(1), {2}, {2, 3}),
              lambda: dyn(initial_state=init_state(t=1, x=2.0), history=[init_state()], signal_history=[sig(0)], center_lanelet_ids_history=[{9, 1}], shape_lanelet_ids_history=[{2, 9, 1}],
                          initial_center_lanelet_ids={2}, initial_shape_lanelet_ids={3, 2}, initial_signal_state=sig(1))))
    return C


def run_mutators(res):
    for label, small, mutate, direct in mutator_cases():
        case = {"class": "mutators", "mutator": label}
        res.evals += 1; res.transitions += 1; res.states += 1
        try:
            y = small()
            _try_hash(y); _eq(y, direct())
            mutate(y)
            x = direct()
        except Exception as e:
            res.violation(f"C12|{label}|mutation-raises:{type(e).__name__}", repr(e), case)
            continue
        res.nontrivial += 1
        a, b = _eq(x, y), _eq(y, x)
        if not (a and b):
            res.violation(f"C12|{label}|unequal-after-mutation", f"object reached by the mutator compares unequal to the directly constructed one (x==y {a}, y==x {b})", case)
        else:
            hx, hy = _try_hash(x), _try_hash(y)
            if hx[0] == "ok" and hy[0] == "ok" and hx[1] != hy[1]:
                res.violation(f"C12|{label}|equal-but-hash-differs:after-mutation", "", case)
            if hx[0] != "ok":
                res.violation(f"C12|{label}|hash-{hx[0]}:directly-constructed-equivalent", "hash() of the object built through the public constructor raises", case)
            elif hy[0] != "ok":
                res.violation(f"C12|{label}|hash-{hy[0]}:after-mutation", "hash() of the mutated object raises although it equals a constructed object whose hash exists", case)
        res.outcomes["mutator-route"] += 1
    res.sample({"class": "mutators", "cases": [c[0] for c in mutator_cases()]}, 1)


def run_class(name, spec, res, pairs=False):
    cls = spec["cls"]
    attr = spec.get("attr", {})
    for basek in ("default", "full"):
        mkkw = spec[basek]
        case0 = {"class": name, "base": basek}
        _check_reflexive(name, basek, lambda: cls(**mkkw()), res, case0)
        res.states += 1
        params_in_base = set(mkkw().keys())
        for p, alts in spec.get("alts", {}).items():
            for ai, alt in enumerate(alts):
                label = f"{p}"
                case = {"class": name, "base": basek, "param": p, "alt": ai}
                a_name = attr.get(p, p)

                def guard(o, a_name=a_name):
                    if hasattr(o, a_name):
                        try:
                            return plain(getattr(o, a_name))
                        except Exception:
                            return object()
                    return object()

                def y_mk(mkkw=mkkw, p=p, alt=alt):
                    kw = mkkw(); kw[p] = alt()
                    return cls(**kw)
                try:
                    y_mk()
                except Exception as e:
                    res.outcomes[f"variant-rejected-by-constructor"] += 1
                    res.guarded += 1
                    continue
                _check_variant(name, label, lambda: cls(**mkkw()), y_mk, False, res, case, guard)
        _check_setter_route(name, spec, basek, res)
        # the same numbers in another numeric representation (numpy scalar, int for an integral float) are the same attribute values
        import numpy as np
        for p, v in mkkw().items():
            reps = []
            if isinstance(v, np.ndarray) and v.dtype.kind == "f" and v.size and not np.any(v == 0.0):
                # a coordinate that is zero in one object and negative zero (or a negative number that rounds to it at 10 decimals) in the other,
                # as a rotation there and back produces it: numerically the same point; any equality answer, but equal => same hash
                for nz in (-0.0, -3e-11):
                    def x_z(mkkw=mkkw, p=p, v=v):
                        kw = mkkw(); w = np.array(v, dtype=float); w.flat[0] = 0.0; kw[p] = w
                        return cls(**kw)

                    def y_z(mkkw=mkkw, p=p, v=v, nz=nz):
                        kw = mkkw(); w = np.array(v, dtype=float); w.flat[0] = nz; kw[p] = w
                        return cls(**kw)
                    try:
                        x_z(); y_z()
                        _check_variant(name, f"{p}(first coordinate 0.0 / {nz!r})", x_z, y_z, None, res, {"class": name, "base": basek, "representation": [p, repr(nz)]})
                    except Exception:
                        res.guarded += 1
            if isinstance(v, np.ndarray) and v.dtype.kind == "f" and np.any(v == 0.0):
                # the same point with a negative zero: numerically identical; whether the classes treat it as equal is not stated, but equal => same hash
                def y_nz(mkkw=mkkw, p=p, v=v):
                    kw = mkkw(); w = np.array(v, dtype=float); w[w == 0.0] = -0.0; kw[p] = w
                    return cls(**kw)
                try:
                    y_nz()
                    _check_variant(name, f"{p}(0.0 as -0.0)", lambda: cls(**mkkw()), y_nz, None, res, {"class": name, "base": basek, "representation": [p, "-0.0"]})
                except Exception:
                    res.guarded += 1
                continue
            if isinstance(v, float) and v == 0.0:
                def y_nz(mkkw=mkkw, p=p):
                    kw = mkkw(); kw[p] = -0.0
                    return cls(**kw)
                try:
                    y_nz()
                    _check_variant(name, f"{p}(0.0 as -0.0)", lambda: cls(**mkkw()), y_nz, None, res, {"class": name, "base": basek, "representation": [p, "-0.0"]})
                except Exception:
                    res.guarded += 1
            if isinstance(v, bool) or not isinstance(v, (int, float)):
                continue
            if isinstance(v, float):
                reps.append(("np.float64", lambda v=v: np.float64(v)))
                if v.is_integer():
                    reps.append(("int", lambda v=v: int(v)))
            else:
                reps.append(("np.int64", lambda v=v: np.int64(v)))
                reps.append(("float", lambda v=v: float(v)))
            # ... and the degenerate interval [v, v]: whether it equals the plain value is not stated, but objects that compare equal need equal hashes
            from commonroad.common.util import Interval
            def y_iv(mkkw=mkkw, p=p, v=v):
                kw = mkkw(); kw[p] = Interval(v, v)
                return cls(**kw)
            try:
                y_iv()
                _check_variant(name, f"{p}(as degenerate interval)", lambda: cls(**mkkw()), y_iv, None, res, {"class": name, "base": basek, "representation": [p, "interval"]})
            except Exception:
                res.guarded += 1; res.outcomes["representation-rejected-by-constructor"] += 1
            for rn, rf in reps:
                def y_mk(mkkw=mkkw, p=p, rf=rf):
                    kw = mkkw(); kw[p] = rf()
                    return cls(**kw)
                try:
                    y_mk()
                except Exception:
                    res.guarded += 1; res.outcomes["representation-rejected-by-constructor"] += 1
                    continue
                _check_variant(name, f"{p}(as {rn})", lambda: cls(**mkkw()), y_mk, True, res, {"class": name, "base": basek, "representation": [p, rn]})
        for j in spec.get("joint", []):
            def y_mk(mkkw=mkkw, j=j):
                kw = mkkw()
                for p, f in j.items():
                    kw[p] = f()
                return cls(**kw)
            if basek == "default":
                _check_variant(name, "+".join(sorted(j)), lambda: cls(**mkkw()), y_mk, False, res, {"class": name, "base": basek, "joint": sorted(j)})
        if basek == "full":
            for p, perms in spec.get("perms", {}).items():
                for pi, perm in enumerate(perms):
                    def y_mk(mkkw=mkkw, p=p, perm=perm):
                        kw = mkkw(); kw[p] = perm()
                        return cls(**kw)
                    _check_variant(name, p, lambda: cls(**mkkw()), y_mk, True, res, {"class": name, "base": basek, "perm": p, "i": pi})
            for p, perms in spec.get("either", {}).items():
                for pi, perm in enumerate(perms):
                    def y_mk(mkkw=mkkw, p=p, perm=perm):
                        kw = mkkw(); kw[p] = perm()
                        return cls(**kw)
                    _check_variant(name, p + "(list-order)", lambda: cls(**mkkw()), y_mk, None, res, {"class": name, "base": basek, "either": p, "i": pi})
            for pi, (oa, ob) in enumerate(spec.get("either_pairs", [])):
                def mk_with(o, mkkw=mkkw):
                    kw = mkkw(); kw.update({k: f() for k, f in o.items()})
                    return cls(**kw)
                _check_variant(name, "+".join(sorted(oa)) + "(two-forms)", lambda oa=oa: mk_with(oa), lambda ob=ob: mk_with(ob), None, res, {"class": name, "base": basek, "either_pair": pi})
            if pairs and spec.get("container"):
                items = [(p, ai, alt) for p, alts in spec.get("alts", {}).items() for ai, alt in enumerate(alts)]
                for (p1, a1, f1), (p2, a2, f2) in itertools.combinations(items, 2):
                    if p1 == p2:
                        continue

                    def y_mk(mkkw=mkkw, p1=p1, p2=p2, f1=f1, f2=f2):
                        kw = mkkw(); kw[p1] = f1(); kw[p2] = f2()
                        return cls(**kw)
                    try:
                        y_mk()
                    except Exception:
                        continue
                    _check_variant(name, f"{p1}+{p2}", lambda: cls(**mkkw()), y_mk, False, res,
                                   {"class": name, "base": basek, "pair": [p1, a1, p2, a2]},
                                   guard=lambda o, p1=p1, p2=p2: (plain(getattr(o, attr.get(p1, p1), None)), plain(getattr(o, attr.get(p2, p2), None))))
        res.sample({"class": name, "base": basek, "params": sorted(spec.get("alts", {}))}, 2)


def run_compound(name, res):
    base, variants, perms = compound_cases()[name]
    case0 = {"class": name, "compound": True}
    _check_reflexive(name, "full", base, res, case0)
    res.states += 1
    for label, mk in variants:
        _check_variant(name, label, base, mk, False, res, {"class": name, "compound": True, "variant": label})
    for label, mk in perms:
        _check_variant(name, label, base, mk, True, res, {"class": name, "compound": True, "perm": label})
    res.sample({"class": name, "variants": [l for l, _ in variants]}, 1)


def class_names():
    return sorted(table().keys()) + sorted(compound_cases().keys()) + ["mutators"]


def describe(tier):
    t = table()
    return {"classes": class_names(), "n_classes": len(class_names()),
            "alternatives_per_class": {k: sum(len(v) for v in s.get("alts", {}).values()) for k, s in t.items()},
            "pairs_for_containers": tier == "thorough", "exhaustive": True}


def units(tier):
    return [{"class": n} for n in class_names()]


def run_unit(unit, tier):
    res = Result()
    n = unit["class"]
    t = table()
    if n == "mutators":
        run_mutators(res)
    elif n in t:
        run_class(n, t[n], res, pairs=(tier == "thorough"))
    else:
        run_compound(n, res)
    return res


def replay(case):
    res = run_unit({"class": case["class"]}, "thorough" if "pair" in case else "quick")
    return [(s, d) for s, d, _ in res.violations]


def canaries():
    from commonroad.scenario import traffic_light as tl

    @contextlib.contextmanager
    def light_eq_drops_direction():
        o = tl.TrafficLight.__eq__

        def bad(self, other):
            if not isinstance(other, tl.TrafficLight):
                return False
            d = other.direction
            try:
                other._direction = self._direction
                return o(self, other)
            finally:
                other._direction = d
        tl.TrafficLight.__eq__ = bad
        try:
            yield
        finally:
            tl.TrafficLight.__eq__ = o

    @contextlib.contextmanager
    def cycle_hash_id():
        o = tl.TrafficLightCycle.__hash__
        tl.TrafficLightCycle.__hash__ = lambda self: id(self)
        try:
            yield
        finally:
            tl.TrafficLightCycle.__hash__ = o
    return [("TrafficLight.__eq__-ignores-direction", light_eq_drops_direction), ("TrafficLightCycle.__hash__-is-identity", cycle_hash_id)]
