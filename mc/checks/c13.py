"""C13 - benchmark ids print and parse consistently.  E2-grid, full product.

ScenarioID: full product of the field alphabets filtered by the constructor's own admissibility; oracle = own grammar
(written from the CommonRoad id documentation) + parse/print fixpoint + field-wise equality.
Solution: every admissible (model, type, cost) triple, all ordered pairs, triples over a core; each as a real Solution
dumped by the real writer and parsed by the real reader.
"""
import contextlib
import itertools
import re

from mc.core import Result
from mc import solspec

PROPERTY = "C13"
RULE = ("full product of ScenarioID field alphabets (cooperative x country x map name x map id x configuration x behaviour "
        "x prediction id(s) x version) filtered by constructor admissibility; all admissible (model,type,cost) triples, "
        "all ordered pairs, triples over a 6-element core, x 4 scenario ids. Every case is distinct by construction; "
        "non-trivial = has at least one optional part (configuration/behaviour/prediction/cooperative) or is a solution")
ASSUMPTIONS = ["grammar: (C-)?[A-Z]{3}_[A-Za-z0-9]+-N(_N(_[STPI](-N)+)?)? with N a positive integer without leading zeros",
               "a one-element prediction *list* is not generated (prints like the scalar; equality after parsing undefined)",
               "solutions are compared through CommonRoadSolutionReader.fromstring(CommonRoadSolutionWriter.dump())"]

GRAMMAR = re.compile(r"(C-)?([A-Z]{3})_([A-Za-z0-9]+)-([1-9][0-9]*)(?:_([1-9][0-9]*)(?:_([STPI])((?:-[1-9][0-9]*)+))?)?\Z")
MAPS = ["Test", "A9", "US101", "a", "x9Y0", "101", "9a",      # alphanumeric names, also ones that start with a digit
        "M\u00fcnster9", "A-b_c"]     # names the constructor sanitises (characters outside [A-Za-z0-9] are dropped): the id it makes of them is a valid id like any other
MAP_IDS = [1, 2, 10, 33, 1000]      # 1000, 300, 999: beyond the small-integer cache (value equality, not identity)
CONFS = [None, 1, 2, 10, 300]
BEHS = [None, "S", "T", "P", "I"]
PREDS = [None, 1, 3, 999, [1, 2], [2, 10, 3], [3]]      # "one or several prediction ids": also a list that holds one
VERS = ["2020a", "2018b"]
QUICK_COUNTRIES = ["ZAM", "DEU", "USA", "CHN", "AUS"]


def _countries(tier):
    if tier == "quick":
        return QUICK_COUNTRIES
    import iso3166
    return ["ZAM"] + sorted(iso3166.countries_by_alpha3)


def describe(tier):
    return {"countries": len(_countries(tier)), "maps": MAPS, "map_ids": MAP_IDS, "configuration": CONFS, "behaviour": BEHS,
            "prediction": PREDS, "versions": VERS, "solution_lists": "singles, all ordered pairs, triples over 6-core; planning-problem ids ascending and not", "edited_ids": [list(e) for e in EDITS],
            "exhaustive": True}


def units(tier):
    cs = _countries(tier)
    u = [{"k": "sid", "countries": cs[i:i + 8]} for i in range(0, len(cs), 8)]
    if tier == "quick":
        u.append({"k": "countries"})        # every ISO-3166 alpha-3 code (+ ZAM) with a few field combinations; the full product over all countries is the thorough tier
    triples = solspec.admissible_triples()
    u.append({"k": "sol1"})
    for i in range(len(triples)):
        if tier == "thorough" or i % 4 == 0:
            u.append({"k": "sol2", "first": i})
    u.append({"k": "sol3"})
    return u


def _check_sid(kw, res):
    from commonroad.scenario.scenario import ScenarioID
    case = {"k": "sid", "kw": kw}
    try:
        x = solspec.build_sid(kw)
    except AssertionError:
        return False  # outside the constructor's admissible set (prediction without behaviour)
    except Exception as e:
        # every combination offered here is a valid id (ISO country or ZAM, positive numbers, S/T/P/I): the constructor must take it
        res.violation(f"C13|ScenarioID|construct|raises:{type(e).__name__}", f"{kw}: {e!r}", case)
        return True
    res.evals += 1; res.transitions += 2; res.states += 1
    if kw.get("conf") or kw.get("beh") or kw.get("coop"):
        res.nontrivial += 1
    try:
        s = str(x)
    except Exception as e:
        res.violation(f"C13|ScenarioID|print|raises:{type(e).__name__}", repr(e), case)
        return True
    m = GRAMMAR.match(s)
    if m is None:
        res.violation("C13|ScenarioID|print|grammar", f"{kw} prints as {s!r}", case)
        return True
    # the printed id must spell the fields
    exp_pred = kw.get("pred")
    exp_conf = kw.get("conf")
    if kw.get("beh") is not None:
        exp_pred = exp_pred or 1
    if kw.get("beh") is not None or exp_conf is not None or exp_pred is not None:
        exp_conf = exp_conf or 1
    plist = exp_pred if isinstance(exp_pred, list) else ([exp_pred] if exp_pred is not None else [])
    printed = (m.group(1) is not None, m.group(2), m.group(3), int(m.group(4)),
               None if m.group(5) is None else int(m.group(5)), m.group(6),
               [] if m.group(7) is None else [int(p) for p in m.group(7).split("-")[1:]])
    # (the map name as the documented sanitisation leaves it: characters outside the grammar's [A-Za-z0-9] are dropped)
    want = (bool(kw.get("coop")), kw["country"], re.sub(r"[^A-Za-z0-9]", "", kw["map"]), kw["map_id"], exp_conf, kw.get("beh"), plist)
    for name, a, b in zip(("cooperative", "country_id", "map_name", "map_id", "configuration_id", "obstacle_behavior",
                           "prediction_id"), printed, want):
        if a != b:
            res.violation(f"C13|ScenarioID|{name}|print-mismatch", f"{kw} prints as {s!r}: {name} {a!r} != {b!r}", case)
    try:
        y = ScenarioID.from_benchmark_id(s, x.scenario_version)
    except Exception as e:
        res.violation(f"C13|ScenarioID|parse|raises:{type(e).__name__}", f"{s!r}: {e!r}", case)
        return True
    for name in ("cooperative", "country_id", "map_name", "map_id", "configuration_id", "obstacle_behavior", "prediction_id",
                 "scenario_version"):
        vx, vy = getattr(x, name), getattr(y, name)
        if name == "prediction_id":
            # one prediction id may be held as a number or as a list with that one number: the same id (the statement asks for an EQUAL id)
            vx, vy = ([vx] if isinstance(vx, int) else vx), ([vy] if isinstance(vy, int) else vy)
        if vx != vy or type(vx) is not type(vy):
            res.violation(f"C13|ScenarioID|{name}|parse-mismatch",
                          f"{s!r}: {name} {getattr(x, name)!r} -> {getattr(y, name)!r}", case)
    if not (x == y) or not (y == x):
        res.violation("C13|ScenarioID|eq|parse-mismatch", f"{s!r}: parsed id != original", case)
    if str(y) != s:
        res.violation("C13|ScenarioID|print|not-a-fixpoint", f"{s!r} -> {str(y)!r}", case)
    res.outcomes["sid-shape:" + ("coop+" if m.group(1) else "") + ("map" if m.group(5) is None else
                                                                     ("conf" if m.group(6) is None else f"pred{len(printed[6])}"))] += 1
    return True


ATTR = {"coop": "cooperative", "country": "country_id", "map": "map_name", "map_id": "map_id", "conf": "configuration_id", "beh": "obstacle_behavior",
        "pred": "prediction_id"}
EDITS = [("map_id", 33), ("conf", 10), ("beh", "T"), ("pred", 3), ("pred", [2, 10, 3]), ("coop", None), ("country", None), ("map", "A9")]


def _check_sid_edited(kw, field, value, res):
    """an id that was printed / hashed / compared and then edited through its public attributes is a valid id like any other: it must print
    and parse like an id constructed with the new values"""
    from commonroad.scenario.scenario import ScenarioID
    if field == "coop":
        value = not kw.get("coop")
    if field == "country":
        value = "USA" if kw["country"] != "USA" else "DEU"
    kw2 = dict(kw); kw2[field] = value
    case = {"k": "sid-edit", "kw": kw, "field": field, "value": value}
    res.evals += 1; res.transitions += 2; res.nontrivial += 1
    try:
        x = solspec.build_sid(kw)
        str(x); hash(x); x == solspec.build_sid(kw)
        setattr(x, ATTR[field], value)
        fresh = solspec.build_sid(kw2)
        s, sf = str(x), str(fresh)
    except Exception as e:
        res.violation(f"C13|ScenarioID|edited:{ATTR[field]}|raises:{type(e).__name__}", repr(e), case)
        return
    if s != sf:
        res.violation(f"C13|ScenarioID|edited:{ATTR[field]}|print-mismatch", f"{kw} with {ATTR[field]}={value!r} assigned prints {s!r}; an id constructed with these values prints {sf!r}", case)
        return
    try:
        y = ScenarioID.from_benchmark_id(s, x.scenario_version)
    except Exception as e:
        res.violation(f"C13|ScenarioID|edited:{ATTR[field]}|parse-raises:{type(e).__name__}", f"{s!r}: {e!r}", case)
        return
    if not (x == y and y == x and x == fresh) or str(y) != s:
        res.violation(f"C13|ScenarioID|edited:{ATTR[field]}|parse-mismatch", f"{s!r}", case)
    res.outcomes["sid-edited"] += 1


def _sid_unit(unit, res):
    for c in unit["countries"]:
        for coop, pred in itertools.product([False, True], [1, [1, 2]]):
            kw = {"coop": coop, "country": c, "map": "Test", "map_id": 1, "conf": 1, "beh": "S", "pred": pred, "ver": "2020a"}
            for field, value in EDITS:
                _check_sid_edited(kw, field, value, res)
        for coop, mp, mid, conf, beh, pred, ver in itertools.product([False, True], MAPS, MAP_IDS, CONFS, BEHS, PREDS, VERS):
            kw = {"coop": coop, "country": c, "map": mp, "map_id": mid, "conf": conf, "beh": beh, "pred": pred, "ver": ver}
            if _check_sid(kw, res):
                res.sample(kw, 2)


SIDS = [{"country": "ZAM", "map": "Test", "map_id": 1},
        {"coop": True, "country": "USA", "map": "US101", "map_id": 33, "conf": 2, "beh": "T", "pred": 1},
        {"country": "DEU", "map": "A9", "map_id": 2, "conf": 1, "beh": "S", "pred": [1, 2]},
        {"coop": True, "country": "CHN", "map": "x9Y0", "map_id": 10, "conf": 10, "ver": "2018b"}]


def _sol_spec(triples, sid, kinds=None, ids=None):
    pps = []
    for j, (m, vt, c) in enumerate(triples):
        kind = kinds[j] if kinds else m
        pps.append({"id": ids[j] if ids else j + 1, "model": m, "vtype": vt, "cost": c, "kind": kind, "t0": 0,
                    "states": [solspec.default_vec(kind, j)]})
    return {"sid": sid, "pps": pps, "ct": None, "proc": None, "date": [2020, 1, 2, 3, 4, 5, 0]}


def _check_sol(spec, res):
    from commonroad.common.solution import CommonRoadSolutionReader, CommonRoadSolutionWriter
    case = {"k": "sol", "spec": spec}
    n = len(spec["pps"])
    res.evals += 1; res.transitions += 2; res.states += 1; res.nontrivial += 1
    try:
        sol = solspec.build_solution(spec)
        given = solspec.build_sid(spec["sid"])         # the scenario id as the caller supplied it (the oracle; not what the solution object reports)
        bid = sol.benchmark_id
        text = CommonRoadSolutionWriter(sol).dump()
    except Exception as e:
        res.violation(f"C13|Solution|n={n}|write|raises:{type(e).__name__}", repr(e), case)
        return
    vs = ",".join(p["model"] + str(p["vtype"]) for p in spec["pps"])
    cs = ",".join(p["cost"] for p in spec["pps"])
    want = "%s:%s:%s:%s" % (vs if n == 1 else f"[{vs}]", cs if n == 1 else f"[{cs}]", str(given),
                            spec["sid"].get("ver", "2020a"))
    if bid != want:
        res.violation(f"C13|Solution|n={n}|benchmark_id|print-mismatch", f"{bid!r} != {want!r}", case)
    models = sorted({p["model"] for p in spec["pps"]})
    try:
        back = CommonRoadSolutionReader.fromstring(text)
    except Exception as e:
        res.violation(f"C13|Solution|read|raises:{type(e).__name__}:{re.sub(r'[^A-Za-z0-9_.:]+', '_', str(e))[:40]}",
                      f"{bid} (models {models}): {e!r}", case)
        return
    got = [(p.vehicle_model.name, p.vehicle_type.value, p.cost_function.name) for p in back.planning_problem_solutions]
    exp = [(p["model"], p["vtype"], p["cost"]) for p in spec["pps"]]
    if got != exp:
        res.violation(f"C13|Solution|n={n}|vehicles-costs|parse-mismatch", f"{bid}: {got} != {exp}", case)
    if [p.planning_problem_id for p in back.planning_problem_solutions] != [p["id"] for p in spec["pps"]]:
        res.violation(f"C13|Solution|n={n}|planning-problem-ids|parse-mismatch", bid, case)
    if not (back.scenario_id == given) or str(back.scenario_id) != str(given) or not (sol.scenario_id == given):
        res.violation(f"C13|Solution|n={n}|scenario_id|parse-mismatch", f"{bid}: parsed {back.scenario_id}, solution object reports {sol.scenario_id}, given {given}", case)
    if back.scenario_id.scenario_version != spec["sid"].get("ver", "2020a"):
        res.violation(f"C13|Solution|n={n}|version|parse-mismatch", bid, case)
    if back.benchmark_id != bid:
        res.violation(f"C13|Solution|n={n}|benchmark_id|not-a-fixpoint", f"{bid} -> {back.benchmark_id}", case)
    # assignments through the public setters of a planning-problem solution: a rejected one (exception) leaves the solution as it was, an accepted
    # one shows up in the printed id, which parses back
    try:
        from commonroad.common.solution import VehicleModel, CostFunction
        for pi, pps in enumerate(sol.planning_problem_solutions):
            from commonroad.common.solution import VehicleType
            for attr, values in (("vehicle_model", list(VehicleModel)), ("cost_function", list(CostFunction)[:6]), ("vehicle_type", list(VehicleType))):
                for val in values:
                    before_attr, before_bid = getattr(pps, attr), sol.benchmark_id
                    try:
                        setattr(pps, attr, val)
                        accepted = True
                    except Exception:
                        accepted = False
                    if not accepted:
                        if getattr(pps, attr) != before_attr or sol.benchmark_id != before_bid:
                            res.violation(f"C13|Solution|rejected-assignment:{attr}|solution-changed", f"{bid}: after the rejected {attr}={val.name}: {sol.benchmark_id}", case)
                            return
                    else:
                        try:
                            rb = CommonRoadSolutionReader.fromstring(CommonRoadSolutionWriter(sol).dump())
                        except Exception as e:
                            res.violation(f"C13|Solution|accepted-assignment:{attr}|unreadable:{type(e).__name__}", f"{sol.benchmark_id}: {e!r}", case)
                            return
                        # the assigned value is what the printed id says and what parses back
                        if getattr(rb.planning_problem_solutions[pi], attr) != val or rb.benchmark_id != sol.benchmark_id:
                            res.violation(f"C13|Solution|accepted-assignment:{attr}|not-in-the-printed-id", f"{sol.benchmark_id}: after {attr}={val.name} the id parses back to {getattr(rb.planning_problem_solutions[pi], attr).name}", case)
                            return
                        setattr(pps, attr, before_attr)
    except Exception as e:
        res.violation(f"C13|Solution|setter-route|raises:{type(e).__name__}", f"{bid}: {e!r}", case)
    # the parsed objects belong to the caller: editing them must not change what a later parse of the same document yields
    try:
        back.scenario_id.configuration_id = 77; back.scenario_id.cooperative = not back.scenario_id.cooperative; back.scenario_id.map_id = 55
        again = CommonRoadSolutionReader.fromstring(text)
        if not (again.scenario_id == given) or str(again.scenario_id) != str(given) or again.benchmark_id != bid:
            res.violation(f"C13|Solution|second-parse-after-editing-the-first-result|scenario_id-differs", f"{bid}: second parse gives {again.scenario_id}", case)
    except Exception as e:
        res.violation(f"C13|Solution|second-parse|raises:{type(e).__name__}", f"{bid}: {e!r}", case)
    res.outcomes[f"sol-n={n}"] += 1


def run_unit(unit, tier):
    res = Result()
    k = unit["k"]
    triples = solspec.admissible_triples()
    if k == "sid":
        _sid_unit(unit, res)
    elif k == "countries":
        import iso3166
        for c in ["ZAM"] + sorted(iso3166.countries_by_alpha3):
            for coop, beh, pred in ((False, None, None), (True, "T", 1), (False, "S", [1, 2])):
                _check_sid({"coop": coop, "country": c, "map": "Test", "map_id": 1, "conf": None if beh is None else 2, "beh": beh, "pred": pred, "ver": "2020a"}, res)
        res.sample({"k": "countries"}, 1)
    elif k == "sol1":
        for t in triples:
            for kind in solspec.kinds_for_model(t[0]):
                for sid in SIDS:
                    sp = _sol_spec([t], sid, [kind])
                    _check_sol(sp, res)
                    res.sample({"triple": t, "kind": kind}, 2)
    elif k == "sol2":
        a = triples[unit["first"]]
        for b in triples:
            sid = SIDS[(unit["first"] + triples.index(b)) % len(SIDS)]
            _check_sol(_sol_spec([a, b], sid), res)
            _check_sol(_sol_spec([a, b], sid, ids=[7, 3]), res)     # planning-problem ids not in ascending order
        res.sample({"pair-first": a, "n_second": len(triples)}, 1)
    elif k == "sol3":
        core = [t for t in triples if t in (("PM", 1, "JB1"), ("KS", 2, "SA1"), ("ST", 3, "WX1"), ("MB", 4, "TR1"),
                                            ("KST", 4, "SM1"), ("PM", 2, "MW1"))]
        for tr in itertools.product(core, repeat=3):
            _check_sol(_sol_spec(list(tr), SIDS[1]), res)
            _check_sol(_sol_spec(list(tr), SIDS[1], ids=[1, 3, 2]), res)
        res.sample({"triples-over": core}, 1)
    return res


def replay(case):
    res = Result()
    if case["k"] == "sid":
        _check_sid(case["kw"], res)
    elif case["k"] == "sid-edit":
        _check_sid_edited(case["kw"], case["field"], case["value"], res)
    else:
        _check_sol(case["spec"], res)
    return [(s, d) for s, d, _ in res.violations]


def canaries():
    from commonroad.scenario import scenario as sc
    from commonroad.common import solution as so

    @contextlib.contextmanager
    def omit_map_id_1():
        o = sc.ScenarioID.__str__

        def bad(self):
            s = o(self)
            return s.replace(f"{self.map_name}-1_", f"{self.map_name}_") if self.map_id == 1 else s
        sc.ScenarioID.__str__ = bad
        try:
            yield
        finally:
            sc.ScenarioID.__str__ = o

    @contextlib.contextmanager
    def pred_join_underscore():
        o = sc.ScenarioID.__str__

        def bad(self):
            s = o(self)
            if isinstance(self.prediction_id, list):
                head, _, tail = s.rpartition("_" + self.obstacle_behavior + "-")
                return head + "_" + self.obstacle_behavior + "-" + tail.replace("-", "_")
            return s
        sc.ScenarioID.__str__ = bad
        try:
            yield
        finally:
            sc.ScenarioID.__str__ = o

    @contextlib.contextmanager
    def vehicle_id_len3():
        o = so.CommonRoadSolutionReader._parse_vehicle_id

        def bad(vehicle_id):
            if len(vehicle_id) != 3:
                raise so.SolutionReaderException("Invalid Vehicle ID: " + vehicle_id)
            return o(vehicle_id)
        so.CommonRoadSolutionReader._parse_vehicle_id = staticmethod(bad)
        try:
            yield
        finally:
            so.CommonRoadSolutionReader._parse_vehicle_id = staticmethod(o)
    return [("omit-map-id-1", omit_map_id_1), ("prediction-ids-joined-with-underscore", pred_join_underscore),
            ("vehicle-id-length-3-only", vehicle_id_len3)]
