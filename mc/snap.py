"""Plain-data snapshots of scenario objects through PUBLIC accessors only (shared by C01, C02, C05, C11, C15, C18).

Leaves are tagged so that oracles can treat them by meaning:
    ("P", x, y)        a stored point            ("O", theta)   an orientation           ("OI", a, b)  an angle interval
    ("IV", a, b)       a plain interval          ("R", v)       a real number            everything else: discrete data
`diff(a, b, tol)` walks two snapshots and yields (path, kind, detail).
"""
import math


RECT_VERTICES = False   # C05/C11 switch this on: the cached corner points of rectangles are then part of the snapshot


def R(v):
    return None if v is None else ("R", float(v))


def P(p):
    if p is None:
        return None
    return ("P",) + tuple(float(x) for x in p)


def _num_or_iv(v, angle=False):
    from commonroad.common.util import Interval, AngleInterval
    if v is None:
        return None
    if isinstance(v, AngleInterval):
        return ("OI", float(v.start), float(v.end))
    if isinstance(v, Interval):
        return ("IV", float(v.start), float(v.end))
    return ("O", float(v)) if angle else ("R", float(v))


def local_shape(s):
    """shape given in an obstacle's own frame (not moved by rigid motions): points/orientations tagged LP / LO"""
    def retag(x):
        if isinstance(x, tuple) and x and x[0] == "P":
            return ("LP",) + x[1:]
        if isinstance(x, tuple) and x and x[0] == "O":
            return ("LO",) + x[1:]
        if isinstance(x, dict):
            return {k: retag(v) for k, v in x.items()}
        if isinstance(x, list):
            return [retag(v) for v in x]
        return x
    return retag(shape(s))


def shape(s):
    from commonroad.geometry.shape import Rectangle, Circle, Polygon, ShapeGroup
    if s is None:
        return None
    if isinstance(s, Rectangle):
        d = {"k": "rect", "l": R(s.length), "w": R(s.width), "c": P(s.center), "o": ("O", float(s.orientation))}
        if RECT_VERTICES:
            d["vertices"] = [P(v) for v in s.vertices]   # derived (cached) corner points
        return d
    if isinstance(s, Circle):
        return {"k": "circle", "r": R(s.radius), "c": P(s.center)}
    if isinstance(s, Polygon):
        v = [P(x) for x in s.vertices]
        if len(v) > 1 and v[0] == v[-1]:
            v = v[:-1]
        return {"k": "poly", "v": v}
    if isinstance(s, ShapeGroup):
        return {"k": "group", "s": [shape(x) for x in s.shapes]}
    return {"k": type(s).__name__}


ANGLE_ATTRS = {"orientation", "hitch_angle"}


def time_step(t):
    from commonroad.common.util import Interval
    if isinstance(t, Interval):
        return ("TIV", t.start, t.end)
    return t


def state(st, with_class=True):
    import numpy as np
    from commonroad.geometry.shape import Shape
    if st is None:
        return None
    out = {}
    for a in st.attributes:
        v = getattr(st, a)
        if v is None:
            continue
        if a == "time_step":
            out[a] = time_step(v)
        elif a == "position":
            out[a] = shape(v) if isinstance(v, Shape) else P(v)
        else:
            out[a] = _num_or_iv(v, angle=(a in ANGLE_ATTRS))
    d = {"attrs": out, "declared": sorted(st.attributes)}
    if with_class:
        d["cls"] = type(st).__name__
    return d


SIGNAL_SLOTS = ["horn", "indicator_left", "indicator_right", "braking_lights", "hazard_warning_lights", "flashing_blue_lights", "time_step"]


def signal(s):
    if s is None:
        return None
    return {k: getattr(s, k) for k in SIGNAL_SLOTS if hasattr(s, k) and getattr(s, k) is not None}


def trajectory(t):
    if t is None:
        return None
    return {"t0": t.initial_time_step, "states": [state(s) for s in t.state_list]}


def occupancy(o):
    if o is None:
        return None
    return {"t": time_step(o.time_step), "shape": shape(o.shape)}


def _assign(d):
    if d is None:
        return None
    return {int(k): sorted(v) for k, v in d.items()}


def prediction(p):
    from commonroad.prediction.prediction import TrajectoryPrediction, SetBasedPrediction
    if p is None:
        return None
    if isinstance(p, TrajectoryPrediction):
        return {"k": "trajectory", "traj": trajectory(p.trajectory), "shape": local_shape(p.shape),
                "center_assign": _assign(p.center_lanelet_assignment), "shape_assign": _assign(p.shape_lanelet_assignment)}
    if isinstance(p, SetBasedPrediction):
        return {"k": "set", "t0": p.initial_time_step, "occ": [occupancy(o) for o in p.occupancy_set]}
    return {"k": type(p).__name__}


def _ids(s):
    return None if s is None else sorted(s)


def obstacle(o):
    from commonroad.scenario.obstacle import ObstacleRole
    role = o.obstacle_role.name.upper()
    d = {"id": o.obstacle_id, "role": role}
    if role == "PHANTOM":
        d["prediction"] = prediction(o.prediction)
        return d
    d["type"] = o.obstacle_type.name if o.obstacle_type is not None else None
    if role == "ENVIRONMENT":
        d["shape"] = shape(o.obstacle_shape)
        return d
    d["shape"] = local_shape(o.obstacle_shape)
    d["initial_state"] = state(o.initial_state)
    d["initial_center_lanelet_ids"] = _ids(o.initial_center_lanelet_ids)
    d["initial_shape_lanelet_ids"] = _ids(o.initial_shape_lanelet_ids)
    d["initial_signal_state"] = signal(o.initial_signal_state)
    d["signal_series"] = None if o.signal_series is None else [signal(s) for s in o.signal_series]
    if o.obstacle_role == ObstacleRole.DYNAMIC:
        d["prediction"] = prediction(o.prediction)
        if getattr(o, "history", None):
            d["history"] = [state(s) for s in o.history]       # earlier initial states (same frame as everything else)
    return d


def stop_line(s):
    if s is None:
        return None
    return {"start": P(s.start) if s.start is not None else None, "end": P(s.end) if s.end is not None else None,
            "marking": s.line_marking.name, "sign_ref": _ids(s.traffic_sign_ref), "light_ref": _ids(s.traffic_light_ref)}


def lanelet(l, registries=False):
    d = {"id": l.lanelet_id, "left": [P(v) for v in l.left_vertices], "right": [P(v) for v in l.right_vertices],
         "center": [P(v) for v in l.center_vertices],
         "mark_left": l.line_marking_left_vertices.name, "mark_right": l.line_marking_right_vertices.name,
         "pred": sorted(l.predecessor), "succ": sorted(l.successor),
         "adj_left": l.adj_left, "adj_left_same": l.adj_left_same_direction, "adj_right": l.adj_right, "adj_right_same": l.adj_right_same_direction,
         "types": sorted(t.name for t in l.lanelet_type), "users_one_way": sorted(u.name for u in l.user_one_way),
         "users_bidirectional": sorted(u.name for u in l.user_bidirectional), "stop_line": stop_line(l.stop_line),
         "signs": sorted(l.traffic_signs), "lights": sorted(l.traffic_lights)}
    if registries:
        d["static_obstacles_on_lanelet"] = sorted(l.static_obstacles_on_lanelet or [])
        d["dynamic_obstacles_on_lanelet"] = {int(t): sorted(v) for t, v in (l.dynamic_obstacles_on_lanelet or {}).items() if v}
    return d


def sign(s):
    return {"id": s.traffic_sign_id, "elements": [(type(e.traffic_sign_element_id).__name__, e.traffic_sign_element_id.name, list(e.additional_values))
                                                  for e in s.traffic_sign_elements],
            "first_occurrence": _ids(s.first_occurrence), "position": P(s.position) if s.position is not None else None, "virtual": bool(s.virtual)}


def cycle(c):
    if c is None:
        return None
    return {"elements": [(e.state.name, e.duration) for e in (c.cycle_elements or [])], "offset": c.time_offset, "active": c.active}


def light(t):
    return {"id": t.traffic_light_id, "position": P(t.position) if t.position is not None else None, "cycle": cycle(t.traffic_light_cycle),
            "active": t.active, "direction": t.direction.name, "color": sorted(c.name for c in (t.color or []))}


def incoming(i):
    return {"id": i.incoming_id, "lanelets": _ids(i.incoming_lanelets), "right": _ids(i.successors_right), "straight": _ids(i.successors_straight),
            "left": _ids(i.successors_left), "left_of": i.left_of}


def intersection(i):
    return {"id": i.intersection_id, "incomings": sorted((incoming(x) for x in i.incomings), key=lambda d: d["id"]), "crossings": _ids(i.crossings)}


def network(n, registries=False):
    return {"lanelets": {l.lanelet_id: lanelet(l, registries) for l in n.lanelets},
            "signs": {s.traffic_sign_id: sign(s) for s in n.traffic_signs},
            "lights": {t.traffic_light_id: light(t) for t in n.traffic_lights},
            "intersections": {i.intersection_id: intersection(i) for i in n.intersections}}


def location(l):
    if l is None:
        return None
    g, e = l.geo_transformation, l.environment
    return {"geo_name_id": l.geo_name_id, "lat": R(l.gps_latitude), "lon": R(l.gps_longitude),
            "geo": None if g is None else {"ref": g.geo_reference, "x": R(g.x_translation), "y": R(g.y_translation), "rot": R(g.z_rotation), "scale": R(g.scaling)},
            "env": None if e is None else {"time": None if e.time is None else (e.time.hours, e.time.minutes, e.time.day, e.time.month, e.time.year),
                                           "time_of_day": None if e.time_of_day is None else e.time_of_day.name,
                                           "weather": None if e.weather is None else e.weather.name,
                                           "underground": None if e.underground is None else e.underground.name}}


def scenario(sc, registries=False, meta=True):
    d = {"network": network(sc.lanelet_network, registries),
         "obstacles": {o.obstacle_id: obstacle(o) for o in sc.obstacles}}
    if meta:
        d.update({"dt": R(sc.dt), "id": str(sc.scenario_id), "version": sc.scenario_id.scenario_version, "author": sc.author,
                  "tags": None if sc.tags is None else sorted(t.name for t in sc.tags), "affiliation": sc.affiliation, "source": sc.source,
                  "location": location(sc.location)})
    return d


def goal(g):
    lan = g.lanelets_of_goal_position
    return {"states": [state(s, with_class=False) for s in g.state_list],
            "lanelets": None if lan is None else {int(k): list(v) for k, v in lan.items()},
            "lanelets_type": type(lan).__name__}


def planning_problem(p):
    return {"id": p.planning_problem_id, "initial_state": state(p.initial_state), "goal": goal(p.goal)}


def planning_problem_set(pps):
    if pps is None:
        return None
    return {i: planning_problem(p) for i, p in pps.planning_problem_dict.items()}


# ------------------------------------------------------------------------------------------ transformation of snapshots

def wrap(a):
    """representative in (-pi, pi]"""
    a = math.fmod(a, 2 * math.pi)
    if a > math.pi:
        a -= 2 * math.pi
    if a <= -math.pi:
        a += 2 * math.pi
    return a


def map_leaves(s, fP=None, fO=None, fOI=None):
    """returns a transformed deep copy"""
    if isinstance(s, tuple) and s and isinstance(s[0], str):
        if s[0] == "P" and fP:
            return ("P",) + tuple(fP(s[1:]))
        if s[0] == "O" and fO:
            return ("O", fO(s[1]))
        if s[0] == "OI" and fOI:
            return ("OI",) + tuple(fOI(s[1], s[2]))
        return s
    if isinstance(s, dict):
        return {k: map_leaves(v, fP, fO, fOI) for k, v in s.items()}
    if isinstance(s, list):
        return [map_leaves(v, fP, fO, fOI) for v in s]
    if isinstance(s, tuple):
        return tuple(map_leaves(v, fP, fO, fOI) for v in s)
    return s


def rigid(s, t, a):
    c, sn = math.cos(a), math.sin(a)

    def fP(p):
        x, y = p[0] + t[0], p[1] + t[1]
        return (c * x - sn * y, sn * x + c * y) + tuple(p[2:])
    return map_leaves(s, fP, lambda th: th + a, lambda lo, hi: (lo + a, hi + a))


def diff(a, b, tol_point=1e-9, tol_real=0.0, angle_mod=True, path="", tol_angle=1e-9, scale=1.0, abs_real=None):
    """yields (path, kind, detail).  a = expected, b = observed."""
    if isinstance(a, tuple) and a and isinstance(a[0], str) and a[0] in ("P", "O", "OI", "IV", "R", "LP", "LO"):
        if not (isinstance(b, tuple) and b and b[0] == a[0] and len(b) == len(a)):
            yield (path, "kind-changed", f"{a!r} -> {b!r}")
            return
        if a[0] in ("LP", "LO"):
            if any(abs(x - y) > tol_point for x, y in zip(a[1:], b[1:])):
                yield (path, "local-shape-changed", f"expected {a[1:]} got {b[1:]}")
        elif a[0] == "P":
            if any(abs(x - y) > tol_point * scale for x, y in zip(a[1:], b[1:])):
                yield (path, "wrong-point", f"expected {a[1:]} got {b[1:]}")
        elif a[0] == "O":
            d = abs(wrap(a[1] - b[1])) if angle_mod else abs(a[1] - b[1])
            if d > tol_angle:
                yield (path, "wrong-orientation", f"expected {a[1]} got {b[1]}")
            elif tol_angle == 0 and not angle_mod and a[1] == 0 and b[1] == 0 and math.copysign(1.0, a[1]) != math.copysign(1.0, b[1]):
                yield (path, "sign-of-zero-changed", f"expected {a[1]} got {b[1]} (a format that stores doubles keeps the bit pattern)")
            elif angle_mod and not (-2 * math.pi - 1e-9 <= b[1] <= 2 * math.pi + 1e-9):
                yield (path, "orientation-out-of-range", f"{b[1]}")
        elif a[0] == "OI":
            if angle_mod:
                if abs((a[2] - a[1]) - (b[2] - b[1])) > tol_angle or abs(wrap(a[1] - b[1])) > tol_angle:
                    yield (path, "wrong-orientation-interval", f"expected {a[1:]} got {b[1:]}")
            elif abs(a[1] - b[1]) > tol_angle or abs(a[2] - b[2]) > tol_angle:
                yield (path, "wrong-orientation-interval", f"expected {a[1:]} got {b[1:]}")
        elif abs_real is not None:
            if any(abs(x - y) > abs_real + 4e-16 * abs(x) for x, y in zip(a[1:], b[1:])):
                yield (path, "wrong-real", f"expected {a[1:]} got {b[1:]}")
            elif abs_real == 0 and any(x == 0 and y == 0 and math.copysign(1.0, x) != math.copysign(1.0, y) for x, y in zip(a[1:], b[1:])):
                yield (path, "sign-of-zero-changed", f"expected {a[1:]} got {b[1:]} (a format that stores doubles keeps the bit pattern)")
        else:
            if any(abs(x - y) > tol_real * max(1.0, abs(x)) + (tol_real if tol_real else 0) for x, y in zip(a[1:], b[1:])):
                yield (path, "wrong-real", f"expected {a[1:]} got {b[1:]}")
        return
    if isinstance(a, dict):
        if not isinstance(b, dict):
            yield (path, "kind-changed", f"{type(a).__name__} -> {type(b).__name__}: {b!r}"[:200])
            return
        for k in a:
            if k not in b:
                yield (f"{path}.{k}", "dropped", f"{a[k]!r}"[:200])
            else:
                yield from diff(a[k], b[k], tol_point, tol_real, angle_mod, f"{path}.{k}", tol_angle, scale, abs_real)
        for k in b:
            if k not in a:
                yield (f"{path}.{k}", "added", f"{b[k]!r}"[:200])
        return
    if isinstance(a, (list, tuple)):
        if not isinstance(b, (list, tuple)) or len(a) != len(b):
            yield (path, "length-changed" if isinstance(b, (list, tuple)) else "kind-changed", f"{a!r} -> {b!r}"[:300])
            return
        for i, (x, y) in enumerate(zip(a, b)):
            yield from diff(x, y, tol_point, tol_real, angle_mod, f"{path}[{i}]", tol_angle, scale, abs_real)
        return
    if a != b or type(a) is not type(b) and not (isinstance(a, (int, float)) and isinstance(b, (int, float)) and not isinstance(a, bool) and not isinstance(b, bool)):
        yield (path, "altered", f"{a!r} -> {b!r}"[:200])


def strip_index(path):
    import re
    return re.sub(r"\[\d+\]", "[]", re.sub(r"\.\d+(?=\.|$|\[)", ".*", path))


def points(s, acc=None):
    """all P leaves"""
    acc = [] if acc is None else acc
    if isinstance(s, tuple) and s and s[0] == "P":
        acc.append(s[1:3])
    elif isinstance(s, dict):
        for v in s.values():
            points(v, acc)
    elif isinstance(s, (list, tuple)):
        for v in s:
            points(v, acc)
    return acc
