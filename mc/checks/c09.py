"""C09 - object ids stay unique and the id pool stays exact.  E1: BFS over add / remove / replace / generate histories.

Universe (ids collide by construction): lanelets L1(1), L2(2; refs sign 10, light 11), sign S(10), light T(11),
intersection I(20; incoming 21), obstacles O1 static(30), O2 dynamic(31), O3 environment(32), O4 phantom(33),
and one collider of a *different kind* for every kind: X static(1), Y sign(30), Z light(32), D dynamic(10), P phantom(11),
E environment(20), M lanelet(33), J intersection(40; incoming id 2); networks NA={L1,L2,S,T,I}, NB={L3(3), sign 10}.
Reference model: abstract id pool (dict name -> ids) advanced in lock-step; every object handed to the scenario is built
fresh from its spec for that call (no aliasing between executions).
"""
import contextlib
import itertools

from mc.core import Result
from mc import bfs

PROPERTY = "C09"
RULE = ("breadth-first search over all operation histories up to the depth bound from 3 start states, sharded by the first "
        "operation; states de-duplicated by (contained objects, lanelet sign/light refs, reserved-id set, id counter, ids "
        "generated). non-trivial = distinct canonical states reached by histories of length >= 2")
ASSUMPTIONS = ["removals are enabled only for contained objects; replace_lanelet_network only with a network whose ids do not "
               "collide with contained obstacles (the statement does not say what must happen otherwise)",
               "list-form add_objects is enabled only when every element can be added (atomicity of a partially failing "
               "list add is not specified)",
               "generate_object_id is called at most twice per history (bounds the otherwise infinite graph)",
               "Scenario._id_set/_id_counter are read for state de-duplication only, never by an oracle"]

IDS = {"L1": [1], "L2": [2], "L3": [3], "S": [10], "T": [11], "I": [20, 21], "O1": [30], "O2": [31], "O3": [32], "O4": [33],
       "X": [1], "Y": [30], "J": [40, 2], "S2": [10],
       "Z": [32], "D": [10], "P": [11], "E": [20], "M": [33],
       "K": [40, 41, 40], "S3": [3], "I2": [22, 21],
       "N": [50]}                                          # an intersection without incoming elements or crossings       # an intersection one of whose incomings carries the intersection's own id: never addable, and it must not leave ids behind
KIND = {"L1": "lanelet", "L2": "lanelet", "L3": "lanelet", "S": "sign", "T": "light", "I": "intersection", "O1": "static",
        "O2": "dynamic", "O3": "environment", "O4": "phantom", "X": "static", "Y": "sign", "J": "intersection", "S2": "sign",
        "Z": "light", "D": "dynamic", "P": "phantom", "E": "environment", "M": "lanelet", "K": "intersection", "S3": "sign", "I2": "intersection", "N": "intersection"}
REFS = {"L2": {"sign": {10}, "light": {11}}}
OBST = ["O1", "O2", "O3", "O4", "X", "D", "P", "E"]
SINGLES = ["L1", "L2", "S", "T", "I", "O1", "O2", "O3", "O4", "X", "Y", "J", "Z", "D", "P", "E", "M", "K", "N"]
NETS = {"NA": ["L1", "L2", "S", "T", "I"], "NB": ["L3", "S2"],
        "NC": ["L3", "S3"],        # a network two of whose own members (of different kinds) carry the same id: never addable
        "ND": ["T", "Y"],          # a network WITHOUT lanelets (a light and a sign whose id an obstacle may use): checked like any other network
        "NF": ["L1", "L2", "I", "I2"]}      # two intersections whose incoming elements share an id (21): never addable
PAIRS = [["O1", "O2"], ["L1", "L2"], ["S", "T"], ["O3", "X"]]


def make(name):
    import numpy as np
    from commonroad.geometry.shape import Rectangle, Circle
    from commonroad.scenario.lanelet import Lanelet, LaneletNetwork
    from commonroad.scenario.intersection import Intersection, IntersectionIncomingElement
    from commonroad.scenario.obstacle import (StaticObstacle, DynamicObstacle, EnvironmentObstacle, PhantomObstacle,
                                              ObstacleType)
    from commonroad.scenario.state import InitialState, KSState
    from commonroad.scenario.trajectory import Trajectory
    from commonroad.prediction.prediction import TrajectoryPrediction, SetBasedPrediction, Occupancy
    from commonroad.scenario.traffic_sign import TrafficSign, TrafficSignElement, TrafficSignIDGermany
    from commonroad.scenario.traffic_light import TrafficLight, TrafficLightCycle, TrafficLightCycleElement, TrafficLightState

    def lane(i, x0, **kw):
        return Lanelet(np.array([[x0, 1.0], [x0 + 10, 1.0]]), np.array([[x0, 0.0], [x0 + 10, 0.0]]),
                       np.array([[x0, -1.0], [x0 + 10, -1.0]]), i, **kw)
    if name == "L1":
        return lane(1, 0.0, successor=[2])
    if name == "L2":
        return lane(2, 10.0, predecessor=[1], traffic_signs={10}, traffic_lights={11})
    if name == "L3":
        return lane(3, 40.0, traffic_signs={10})
    if name in ("S", "S2"):
        return TrafficSign(10, [TrafficSignElement(TrafficSignIDGermany.MAX_SPEED, ["10"])], {2}, np.array([10.0, 2.0]))
    if name == "Y":
        return TrafficSign(30, [TrafficSignElement(TrafficSignIDGermany.STOP, [])], set(), np.array([3.0, 2.0]))
    if name == "M":
        # a lanelet whose boundaries cross (its polygon is a bow tie, not a simple polygon): accepted by the constructor, so it is an object like any other
        return Lanelet(np.array([[60.0, 1.0], [70.0, -1.0]]), np.array([[60.0, 0.0], [70.0, 0.0]]), np.array([[60.0, -1.0], [70.0, 1.0]]), 33)
    if name == "Z":
        return TrafficLight(32, np.array([1.0, 2.0]),
                            TrafficLightCycle([TrafficLightCycleElement(TrafficLightState.GREEN, 1)]))
    if name == "T":
        return TrafficLight(11, np.array([19.0, 2.0]),
                            TrafficLightCycle([TrafficLightCycleElement(TrafficLightState.RED, 2),
                                               TrafficLightCycleElement(TrafficLightState.GREEN, 3)]))
    if name == "I":
        return Intersection(20, [IntersectionIncomingElement(21, {1}, set(), {2}, set())])
    if name == "I2":
        return Intersection(22, [IntersectionIncomingElement(21, {2}, set(), {1}, set())])
    if name == "J":
        return Intersection(40, [IntersectionIncomingElement(2, {1}, set(), set(), set())])
    if name == "N":
        return Intersection(50, [])
    if name == "S3":
        return TrafficSign(3, [TrafficSignElement(TrafficSignIDGermany.STOP, [])], set(), np.array([2.0, 2.0]))
    if name == "K":
        return Intersection(40, [IntersectionIncomingElement(41, {1}, set(), set(), set()), IntersectionIncomingElement(40, {1}, set(), set(), set())])
    st = InitialState(time_step=0, position=np.array([5.0, 0.0]), orientation=0.0, velocity=1.0, acceleration=0.0,
                      yaw_rate=0.0, slip_angle=0.0)
    if name == "O1":
        return StaticObstacle(30, ObstacleType.PARKED_VEHICLE, Rectangle(4.0, 2.0), st)
    if name == "X":
        return StaticObstacle(1, ObstacleType.PARKED_VEHICLE, Circle(1.0), st)
    if name == "D":
        return DynamicObstacle(10, ObstacleType.CAR, Rectangle(4.0, 2.0), st)
    if name == "E":
        return EnvironmentObstacle(20, ObstacleType.BUILDING, Circle(2.0, np.array([0.0, 30.0])))
    if name == "P":
        return PhantomObstacle(11, SetBasedPrediction(0, [Occupancy(0, Circle(1.0, np.array([5.0, 0.0])))]))
    if name == "O2":
        tr = Trajectory(1, [KSState(time_step=1, position=np.array([6.0, 0.0]), orientation=0.0, velocity=1.0, steering_angle=0.0)])
        return DynamicObstacle(31, ObstacleType.CAR, Rectangle(4.0, 2.0), st, TrajectoryPrediction(tr, Rectangle(4.0, 2.0)))
    if name == "O3":
        return EnvironmentObstacle(32, ObstacleType.BUILDING, Rectangle(4.0, 2.0, np.array([0.0, 20.0])))
    if name == "O4":
        return PhantomObstacle(33, SetBasedPrediction(0, [Occupancy(0, Rectangle(4.0, 2.0, np.array([5.0, 0.0])))]))
    if name in NETS:
        net = LaneletNetwork()
        for n in NETS[name]:
            o = make(n)
            k = KIND[n]
            if k == "lanelet":
                net.add_lanelet(o)
            elif k == "sign":
                net.add_traffic_sign(o, set())
            elif k == "light":
                net.add_traffic_light(o, set())
            else:
                net.add_intersection(o)
        return net
    raise KeyError(name)


GENKINDS = ["sign", "light", "lanelet", "intersection", "static", "dynamic", "environment", "phantom"]


def make_generated(kind, g):
    """an object of the given kind whose id is g (an id handed out by generate_object_id), away from everything else"""
    import numpy as np
    from commonroad.geometry.shape import Circle
    from commonroad.scenario.lanelet import Lanelet
    from commonroad.scenario.intersection import Intersection
    from commonroad.scenario.obstacle import StaticObstacle, DynamicObstacle, EnvironmentObstacle, PhantomObstacle, ObstacleType
    from commonroad.scenario.state import InitialState
    from commonroad.prediction.prediction import SetBasedPrediction, Occupancy
    from commonroad.scenario.traffic_sign import TrafficSign, TrafficSignElement, TrafficSignIDGermany
    from commonroad.scenario.traffic_light import TrafficLight, TrafficLightCycle, TrafficLightCycleElement, TrafficLightState
    st = InitialState(time_step=0, position=np.array([5.0, 80.0]), orientation=0.0, velocity=0.0, acceleration=0.0, yaw_rate=0.0, slip_angle=0.0)
    if kind == "sign":
        return TrafficSign(g, [TrafficSignElement(TrafficSignIDGermany.STOP, [])], set(), np.array([3.0, 82.0]))
    if kind == "light":
        return TrafficLight(g, np.array([1.0, 82.0]), TrafficLightCycle([TrafficLightCycleElement(TrafficLightState.GREEN, 1)]))
    if kind == "lanelet":
        return Lanelet(np.array([[0.0, 81.0], [10.0, 81.0]]), np.array([[0.0, 80.0], [10.0, 80.0]]), np.array([[0.0, 79.0], [10.0, 79.0]]), g)
    if kind == "intersection":
        return Intersection(g, [])
    if kind == "static":
        return StaticObstacle(g, ObstacleType.PARKED_VEHICLE, Circle(1.0), st)
    if kind == "dynamic":
        return DynamicObstacle(g, ObstacleType.CAR, Circle(1.0), st)
    if kind == "environment":
        return EnvironmentObstacle(g, ObstacleType.BUILDING, Circle(2.0, np.array([0.0, 90.0])))
    if kind == "phantom":
        return PhantomObstacle(g, SetBasedPrediction(0, [Occupancy(0, Circle(1.0, np.array([5.0, 80.0])))]))
    raise KeyError(kind)


def new_scenario():
    from commonroad.scenario.scenario import Scenario, ScenarioID
    return Scenario(0.1, ScenarioID())


STARTS = {"empty": [], "NA-loaded": [["addnet", "NA"]],
          # lanelet L2 references sign id 10 and light id 11, which here belong to obstacles (dangling references onto other kinds)
          "dangling-refs": [["add", "L1"], ["add", "L2"], ["add", "D"], ["add", "P"], ["add", "O1"]],
          "all-loaded": [["add", "L1"], ["add", "L2"], ["add", "S"], ["add", "T"], ["add", "I"], ["add", "O1"], ["add", "O2"],
                         ["add", "O3"], ["add", "O4"]]}


# ---------------------------------------------------------------- reference model: (present frozenset, ngen, generated tuple)

def m_used(present):
    out = []
    for n in present:
        out += IDS[n]
    return out


def m_can_add(present, names):
    used = set(m_used(present))
    for n in names:
        ids = IDS[n]
        if n in present or set(ids) & used or len(set(ids)) != len(ids):
            return False
        used |= set(ids)
    return True


def enabled(model):
    present, ngen, gen = model
    ops = []
    for n in SINGLES:
        ops.append(["add", n])
    for pr in PAIRS:
        if m_can_add(present, pr):
            ops.append(["addlist", pr])
    for n in ("S", "T"):
        ops.append(["addref", n])        # (also when the named lanelet 2 is not in the scenario: the element is added all the same)
    obst = [n for n in OBST if n in present]
    for n in obst:
        ops.append(["rm_obstacle", n])
    for a, b in itertools.combinations(obst, 2):
        ops.append(["rm_obstacle_list", [a, b]])
    lan = [n for n in ("L1", "L2", "L3", "M") if n in present]
    for n in lan:
        ops.append(["rm_lanelet", n, True]); ops.append(["rm_lanelet", n, False])
    if len(lan) >= 2:
        ops.append(["rm_lanelet_list", lan[:2], True]); ops.append(["rm_lanelet_list", lan[:2], False])
    elif lan:
        ops.append(["rm_lanelet_list", lan, True])
    for kind, fn in (("sign", "rm_sign"), ("light", "rm_light"), ("intersection", "rm_intersection")):
        names = [n for n in present if KIND[n] == kind]
        names.sort()
        for n in names:
            ops.append([fn, n]); ops.append([fn + "_list", [n]])
        if len(names) >= 2:
            ops.append([fn + "_list", names])
    obstacle_ids = set(i for n in obst for i in IDS[n])
    for net in NETS:
        ids = set(i for n in NETS[net] for i in IDS[n])
        idl = [i for n in NETS[net] for i in IDS[n]]
        if not (ids & obstacle_ids) and len(idl) == len(set(idl)):      # (replacing is only enabled with a network that can be added)
            ops.append(["replace", net])
    if not any(KIND[n] in ("lanelet", "sign", "light", "intersection") for n in present):
        # a whole network added to a scenario that has none (obstacles may be there): rejected as a whole, with nothing left behind, when one of
        # its ids is in use or occurs twice inside the network
        for net in NETS:
            ops.append(["addnet", net])
    # removal of an object that is NOT contained while its id is in use by a contained object of any kind: whatever the call does (warn,
    # raise), the scenario and its id pool must stay as they are
    # (removal is by id: an object of the same kind with the same id IS the contained object, so only cross-kind id collisions count as absent)
    grp = lambda n: KIND[n] if KIND[n] in ("lanelet", "sign", "light", "intersection") else "obstacle"
    for n in sorted(KIND):
        if n in present or n not in IDS:
            continue
        users = [m for m in present if set(IDS[m]) & set(IDS[n])]
        if users and all(grp(m) != grp(n) for m in users):
            ops.append(["rm_absent", n])
    ops.append(["erase"])
    if ngen < 2:
        ops.append(["generate"])
        # an object that carries a *generated* id is added and removed again (the usual way of using generate_object_id): the scenario is as
        # before, and the id stays "returned before" - a later generate must not hand it out again, whichever kind of object carried it
        for kind in GENKINDS:
            ops.append(["gencycle", kind])
    return ops


def _hanging(present, removed):
    """signs/lights removed together with lanelets `removed` (referenced_elements=True)"""
    keep_s, keep_l, del_s, del_l = set(), set(), set(), set()
    for n in present:
        if KIND[n] != "lanelet":
            continue
        r = REFS.get(n, {}) if n != "L3" else {"sign": {10}}
        (del_s if n in removed else keep_s).update(r.get("sign", set()))
        (del_l if n in removed else keep_l).update(r.get("light", set()))
    out = set()
    for n in present:
        if KIND[n] == "sign" and IDS[n][0] in (del_s - keep_s):
            out.add(n)
        if KIND[n] == "light" and IDS[n][0] in (del_l - keep_l):
            out.add(n)
    return out


def model_step(model, op):
    """returns (expected outcome 'ok'|'ValueError'|None, new model)"""
    present, ngen, gen = model
    p = set(present)
    k = op[0]
    if k in ("add", "addref"):
        if m_can_add(present, [op[1]]):
            p.add(op[1]); return "ok", (frozenset(p), ngen, gen)
        return "ValueError", model
    if k == "addlist":
        p.update(op[1]); return "ok", (frozenset(p), ngen, gen)
    if k == "addnet":
        if not m_can_add(present, NETS[op[1]]):
            return "ValueError", model
        p.update(NETS[op[1]]); return "ok", (frozenset(p), ngen, gen)
    if k == "rm_obstacle":
        p.discard(op[1]); return "ok", (frozenset(p), ngen, gen)
    if k in ("rm_obstacle_list", "rm_sign_list", "rm_light_list", "rm_intersection_list"):
        p -= set(op[1]); return "ok", (frozenset(p), ngen, gen)
    if k in ("rm_sign", "rm_light", "rm_intersection"):
        p.discard(op[1]); return "ok", (frozenset(p), ngen, gen)
    if k in ("rm_lanelet", "rm_lanelet_list"):
        names = [op[1]] if k == "rm_lanelet" else op[1]
        if op[2]:
            p -= _hanging(present, set(names))
        p -= set(names); return "ok", (frozenset(p), ngen, gen)
    if k in ("replace", "erase"):
        p = {n for n in p if KIND[n] in ("static", "dynamic", "environment", "phantom")}
        if k == "replace":
            p.update(NETS[op[1]])
        return "ok", (frozenset(p), ngen, gen)
    if k in ("generate", "gencycle"):
        return "ok", (present, ngen + 1, gen)
    if k == "rm_absent":
        return None, model
    raise KeyError(k)


def apply_real(sc, op):
    k = op[0]
    if k == "add":
        return sc.add_objects(make(op[1]))
    if k == "addref":
        return sc.add_objects(make(op[1]), lanelet_ids={2})
    if k == "addlist":
        return sc.add_objects([make(n) for n in op[1]])
    if k == "addnet":
        return sc.add_objects(make(op[1]))
    if k == "rm_obstacle":
        return sc.remove_obstacle(make(op[1]))
    if k == "rm_obstacle_list":
        return sc.remove_obstacle([make(n) for n in op[1]])
    if k == "rm_lanelet":
        return sc.remove_lanelet(make(op[1]), op[2])
    if k == "rm_lanelet_list":
        return sc.remove_lanelet([make(n) for n in op[1]], op[2])
    if k == "rm_sign":
        return sc.remove_traffic_sign(make(op[1]))
    if k == "rm_sign_list":
        return sc.remove_traffic_sign([make(n) for n in op[1]])
    if k == "rm_light":
        return sc.remove_traffic_light(make(op[1]))
    if k == "rm_light_list":
        return sc.remove_traffic_light([make(n) for n in op[1]])
    if k == "rm_intersection":
        return sc.remove_intersection(make(op[1]))
    if k == "rm_intersection_list":
        return sc.remove_intersection([make(n) for n in op[1]])
    if k == "rm_absent":
        kind = KIND[op[1]]
        fn = {"sign": sc.remove_traffic_sign, "light": sc.remove_traffic_light, "intersection": sc.remove_intersection, "lanelet": sc.remove_lanelet}.get(kind, sc.remove_obstacle)
        return fn(make(op[1]))
    if k == "replace":
        return sc.replace_lanelet_network(make(op[1]))
    if k == "erase":
        return sc.erase_lanelet_network()
    if k == "generate":
        return sc.generate_object_id()
    if k == "gencycle":
        g = sc.generate_object_id()
        sc.add_objects(make_generated(op[1], g))
        rm = {"sign": sc.remove_traffic_sign, "light": sc.remove_traffic_light, "intersection": sc.remove_intersection,
              "lanelet": sc.remove_lanelet}.get(op[1], sc.remove_obstacle)
        rm(make_generated(op[1], g))
        return g
    raise KeyError(k)


def step(live, model, op):
    exp, model2 = model_step(model, op)
    try:
        r = apply_real(live, op)
        obs = ("ok", r)
    except ValueError as e:
        obs = ("ValueError", str(e))
    except Exception as e:
        obs = ("raises:" + type(e).__name__, str(e)[:200])
    if op[0] in ("generate", "gencycle") and obs[0] == "ok":
        present, ngen, gen = model2
        model2 = (present, ngen, gen + (obs[1],))
    return obs, model2


def public_ids(sc):
    """(kind, id) of every contained object through public accessors"""
    out = []
    net = sc.lanelet_network
    out += [("lanelet", l.lanelet_id) for l in net.lanelets]
    out += [("sign", s.traffic_sign_id) for s in net.traffic_signs]
    out += [("light", t.traffic_light_id) for t in net.traffic_lights]
    for i in net.intersections:
        out.append(("intersection", i.intersection_id))
        out += [("incoming", inc.incoming_id) for inc in i.incomings]
    for o in sc.static_obstacles:
        out.append(("static", o.obstacle_id))
    for o in sc.dynamic_obstacles:
        out.append(("dynamic", o.obstacle_id))
    for o in sc.environment_obstacle:
        out.append(("environment", o.obstacle_id))
    for o in sc.phantom_obstacle:
        out.append(("phantom", o.obstacle_id))
    return sorted(out)


def snapshot(sc):
    refs = sorted((l.lanelet_id, tuple(sorted(l.traffic_signs)), tuple(sorted(l.traffic_lights)),
                   tuple(sorted(l.successor)), tuple(sorted(l.predecessor))) for l in sc.lanelet_network.lanelets)
    return (tuple(public_ids(sc)), tuple(refs))


def model_ids(present):
    out = []
    for n in present:
        k = KIND[n]
        if k == "intersection":
            out.append(("intersection", IDS[n][0])); out.extend(("incoming", i) for i in IDS[n][1:])
        else:
            out.append((k, IDS[n][0]))
    return sorted(out)


def canon(sc, model):
    return (snapshot(sc), tuple(sorted(getattr(sc, "_id_set", ()))), getattr(sc, "_id_counter", None), model[1])


def check(live, model, model2, op, obs, pre):
    exp, _ = model_step(model, op)
    k = op[0]
    form = "[list]" if k.endswith("_list") or k == "addlist" else ""
    opname = k.replace("_list", "") + form
    out = []
    got_ids = public_ids(live)
    idvals = [i for _, i in got_ids]
    dup = sorted({i for i in idvals if idvals.count(i) > 1})
    if dup:
        out.append((f"C09|{opname}|duplicate-id", f"ids {dup} shared by contained objects {got_ids}"))
    if k == "gencycle" and obs[0] == "ok" and got_ids != model_ids(model2[0]):
        out.append((f"C09|add+remove-with-generated-id:{op[1]}|contained-objects-differ-from-model", f"{op}: contained {got_ids} model {model_ids(model2[0])}"))
    if k in ("generate", "gencycle"):
        if obs[0] != "ok":
            out.append((f"C09|{k}|{obs[0]}", obs[1]))
        else:
            g = obs[1]
            if g in idvals:
                out.append(("C09|generate|generated-id-in-use", f"returned {g}, contained {got_ids}"))
            if g in model[2]:
                out.append(("C09|generate|generated-id-repeated", f"returned {g} again (earlier {model[2]})"))
        return out
    if k == "rm_absent":
        if got_ids != model_ids(model2[0]):
            out.append((f"C09|remove-of-absent:{KIND[op[1]]}|scenario-changed", f"{op} ({obs[0]}): contained {got_ids} model {model_ids(model2[0])}"))
        return out
    if obs[0].startswith("raises:"):
        out.append((f"C09|{opname}|{obs[0]}", f"{op}: {obs[1]}"))
        return out
    if exp == "ok" and obs[0] == "ValueError":
        import re as _re
        names = "+".join([op[1]] if isinstance(op[1], str) else op[1]) if len(op) > 1 else ""
        m = _re.search(r"ID (\d+)", obs[1])
        what = "add-rejected-although-id-free" if k.startswith("add") else "raises:ValueError"
        out.append((f"C09|{opname}|{what}:{names}:reported-id={m.group(1) if m else '?'}",
                    f"{op}: {obs[1]}; contained {got_ids}"))
        return out
    if exp == "ValueError" and obs[0] == "ok":
        out.append((f"C09|{opname}|add-accepted-on-collision:{KIND.get(op[1], 'network')}", f"{op} accepted; contained {got_ids}"))
        return out
    if obs[0] == "ValueError":
        if snapshot(live) != pre:
            out.append((f"C09|{opname}|failed-add-mutated:{KIND.get(op[1], 'network')}", f"{op}: before {pre} after {snapshot(live)}"))
        return out
    if got_ids != model_ids(model2[0]):
        out.append((f"C09|{opname}|contained-objects-differ-from-model",
                    f"{op}: contained {got_ids} model {model_ids(model2[0])}"))
    return out


def start_fn(name):
    def start():
        sc = new_scenario()
        model = (frozenset(), 0, ())
        for op in STARTS[name]:
            _, model = step(sc, model, op)
        return sc, model
    return start


def describe(tier):
    return {"universe": IDS, "starts": list(STARTS), "depth": 3 if tier == "quick" else 4,
            "sharding": "one BFS per (start state, first operation); each shard de-duplicates independently",
            "generate_bound": 2, "exhaustive": True}


def units(tier):
    depth = 3 if tier == "quick" else 4
    u = []
    for s in STARTS:
        sc, model = start_fn(s)()
        for op in enabled(model):
            u.append({"start": s, "first": op, "depth": depth})
    return u


def run_unit(unit, tier):
    res = Result()
    st = start_fn(unit["start"])
    # the first transition itself
    live, model = st()
    pre = snapshot(live)
    obs, model2 = step(live, model, unit["first"])
    res.transitions += 1; res.evals += 1
    for sig, detail in check(live, model, model2, unit["first"], obs, pre):
        res.violation(sig, detail, {"start": unit["start"], "history": [unit["first"]]})
    info = bfs.search(st, enabled, step, canon, check, unit["depth"] - 1, res, snapshot=snapshot, prefix=[unit["first"]])
    # attach the start to recorded cases
    res.violations = [(s, d, dict(c, start=unit["start"])) for s, d, c in res.violations]
    res.samples = [dict(c, start=unit["start"]) for c in res.samples]
    res.extra["shards_closed"] = 1 if info["closed"] else 0
    res.extra["max_depth_reached"] = [info["max_depth"] + 1]
    return res


def replay(case):
    st = start_fn(case.get("start", "empty"))
    live, model = st()
    out = []
    for op in case["history"]:
        pre = snapshot(live)
        obs, model2 = step(live, model, op)
        out += list(check(live, model, model2, op, obs, pre))
        model = model2
    return out


def canaries():
    from commonroad.scenario import scenario as sc

    @contextlib.contextmanager
    def light_list_leak():
        o = sc.Scenario.remove_traffic_light

        def bad(self, traffic_light):
            if isinstance(traffic_light, list):
                for light in traffic_light:
                    self.lanelet_network.remove_traffic_light(light.traffic_light_id)
                return
            return o(self, traffic_light)
        sc.Scenario.remove_traffic_light = bad
        try:
            yield
        finally:
            sc.Scenario.remove_traffic_light = o

    @contextlib.contextmanager
    def gen_len():
        o = sc.Scenario.generate_object_id
        sc.Scenario.generate_object_id = lambda self: len(self._id_set) + 1
        try:
            yield
        finally:
            sc.Scenario.generate_object_id = o
    return [("list-form-remove_traffic_light-leaks-id", light_list_leak), ("generate-uses-len", gen_len)]
