"""C06 - spatial lookups agree with the geometry they index.  E2-grid.

Networks: all subsets (size 1..2 quick, 1..3 thorough) of an 8-lanelet alphabet on a half-integer grid (straight, kinked, wide,
narrow, overlapping, boundary-sharing, far away, diagonal) x every construction route (from list, lanelet by lanelet in both
orders, via Scenario.add_objects, XML and protobuf write->read, deepcopy, pickle, create_from_lanelet_network, network of a
deep-copied / pickled scenario).  Queries: every grid point of the window (+ far points), 9 query shapes at 20 anchors, the
same shapes as static obstacles.  Oracle: exact rational geometry on the raw vertices (mc/geom.py).
Shape semantics: every shape of a shape alphabet x every grid point: contains_point and the exported shapely geometry.
"""
import contextlib
import functools
import itertools
import json
import math
import os
import pickle
import tempfile

from mc.core import Result
from mc import geom, netgeo, spec

PROPERTY = "C06"
RULE = ("full product lanelet subsets x construction routes x (all grid points; all query shapes x anchors; obstacles); shape "
        "alphabet x grid points. non-trivial = queries whose expected answer is a non-empty lanelet set or lies on a lanelet "
        "boundary; distinct by construction")
ASSUMPTIONS = ["lanelet polygon = right boundary followed by the reversed left boundary, closed set (boundary included)",
               "rotated rectangles are decided only when shrinking/growing them by 1e-7 does not change the answer; circles only when "
               "the exact distance differs from r by more than 1% of r (shapely approximates discs by 64-gons); such cases are guarded",
               "file routes write with the library's own writers at precision 4; all coordinates are multiples of 0.5"]

ROUTES = ["from_list", "add_asc", "add_desc", "scenario_add", "xml", "pb", "deepcopy", "pickle", "from_network", "scenario_deepcopy", "add_no_rtree",
          "swap_remove_first", "swap_add_first", "readd_moved", "shared_arrays_then_shift", "mixed_dtypes", "source_of_pickle", "source_of_copies"]
SHIFT = (16.0, -8.0)


@functools.lru_cache(maxsize=None)
def _at(p):
    return tuple(netgeo.lanelets_at(p, list(netgeo.LANELETS)))


@functools.lru_cache(maxsize=None)
def _hit(shape_key, lid):
    import json
    return netgeo.shape_vs_ring(json.loads(shape_key), netgeo.ring_of(lid))


def hit_sets(sp, ids):
    import json
    key = json.dumps(sp)
    hit, und = [], []
    for i in ids:
        r = _hit(key, i)
        if r is True:
            hit.append(i)
        elif r is None:
            und.append(i)
    return sorted(hit), sorted(und)


def scenario_spec(ids):
    sp = spec.minimal()
    sp["lanelets"] = [netgeo.lanelet_spec(i) for i in ids]
    sp["pps"] = [spec.pp(100, x=1.0, y=1.0)]
    return sp


def build_network(ids, route, tmpdir):
    """returns a LaneletNetwork containing exactly the lanelets `ids`, built through `route`"""
    import copy
    from commonroad.scenario.lanelet import LaneletNetwork
    lanelets = [spec.mk_lanelet(netgeo.lanelet_spec(i)) for i in ids]
    if route == "from_list":
        return LaneletNetwork.create_from_lanelet_list(lanelets)
    if route in ("add_asc", "add_desc", "add_no_rtree"):
        net = LaneletNetwork()
        seq = lanelets if route != "add_desc" else lanelets[::-1]
        for k, l in enumerate(seq):
            # add_no_rtree: index is only rebuilt by the last addition
            net.add_lanelet(l, rtree=(route != "add_no_rtree" or k == len(seq) - 1))
        return net
    if route in ("swap_remove_first", "swap_add_first", "readd_moved"):
        # lanelet-by-lanelet construction in which an addition and a removal cancel out in the lanelet count before the
        # spatial index is rebuilt (queries are made in between so that an index exists)
        import numpy as np
        other = next(i for i in sorted(netgeo.LANELETS) if i not in ids)
        net = LaneletNetwork()
        for l in lanelets[:-1]:
            net.add_lanelet(l)
        if route == "readd_moved":
            moved = spec.mk_lanelet(dict(netgeo.lanelet_spec(other), id=ids[-1]))
            net.add_lanelet(moved)
            net.find_lanelet_by_position([np.array([0.0, 0.0])])
            net.remove_lanelet(ids[-1], rtree=False)
            net.add_lanelet(lanelets[-1])
            return net
        net.add_lanelet(spec.mk_lanelet(netgeo.lanelet_spec(other)))
        net.find_lanelet_by_position([np.array([0.0, 0.0])])
        if route == "swap_remove_first":
            net.remove_lanelet(other, rtree=False)
            net.add_lanelet(lanelets[-1])
        else:
            net.add_lanelet(lanelets[-1], rtree=False)
            net.remove_lanelet(other)
        return net
    if route == "shared_arrays_then_shift":
        # lanelets whose boundaries coincide are constructed from ONE ndarray object (a caller-owned array used twice), added one by one, and the
        # finished network is shifted by a pure translation; the lookups are then made at the shifted places
        import numpy as np
        from commonroad.scenario.lanelet import Lanelet
        arrays = {}

        def arr(pts):
            key = json.dumps([list(map(float, p)) for p in pts])
            if key not in arrays:
                arrays[key] = np.array(pts, dtype=float)
            return arrays[key]
        net = LaneletNetwork()
        for i in ids:
            sp_ = netgeo.lanelet_spec(i)
            cen = sp_.get("center") or spec.center_of(sp_["left"], sp_["right"])
            net.add_lanelet(Lanelet(arr(sp_["left"]), arr(cen), arr(sp_["right"]), i))
        net.find_lanelet_by_position([np.array([0.0, 0.0])])
        net.translate_rotate(np.array(SHIFT), 0.0)
        net._verif_shift = SHIFT
        return net
    if route == "mixed_dtypes":
        # boundaries handed over as the arrays a caller gets from integer literals: a polyline whose coordinates are all whole numbers is an
        # integer-typed array, the others are float arrays (so one lanelet may mix both)
        import numpy as np
        from commonroad.scenario.lanelet import Lanelet

        def arr(pts):
            whole = all(float(c).is_integer() for p_ in pts for c in p_)
            return np.array([[int(c) for c in p_] for p_ in pts], dtype=int) if whole else np.array(pts, dtype=float)
        ls = []
        for i in ids:
            sp_ = netgeo.lanelet_spec(i)
            ls.append(Lanelet(arr(sp_["left"]), arr(sp_.get("center") or spec.center_of(sp_["left"], sp_["right"])), arr(sp_["right"]), i))
        return LaneletNetwork.create_from_lanelet_list(ls)
    if route == "from_network":
        base = LaneletNetwork.create_from_lanelet_list(lanelets)
        return LaneletNetwork.create_from_lanelet_network(base)
    sc, pps = spec.build(scenario_spec(ids))
    if route == "scenario_add":
        return sc.lanelet_network
    if route == "scenario_deepcopy":
        return copy.deepcopy(sc).lanelet_network
    if route == "deepcopy":
        return copy.deepcopy(sc.lanelet_network)
    if route == "pickle":
        return pickle.loads(pickle.dumps(sc.lanelet_network))
    if route in ("source_of_pickle", "source_of_copies"):
        # the network that was serialised / copied (shallow and deep): making the copy is a read-only use of it
        net = sc.lanelet_network
        if route == "source_of_pickle":
            pickle.dumps(net); pickle.dumps(sc)
        else:
            copy.copy(net); copy.deepcopy(net); copy.copy(sc)
        return net
    from commonroad.common.file_writer import CommonRoadFileWriter, OverwriteExistingFile
    from commonroad.common.file_reader import CommonRoadFileReader
    from commonroad.common.util import FileFormat
    fn = os.path.join(tmpdir, "n_%s.%s" % ("_".join(map(str, ids)), "xml" if route == "xml" else "pb"))
    w = CommonRoadFileWriter(sc, pps, "a", "b", "c", sc.tags, file_format=FileFormat.XML if route == "xml" else FileFormat.PROTOBUF)
    w.write_to_file(fn, OverwriteExistingFile.ALWAYS)
    sc2, _ = CommonRoadFileReader(fn, file_format=FileFormat.XML if route == "xml" else FileFormat.PROTOBUF).open()
    os.remove(fn)
    return sc2.lanelet_network


def mk_query_obstacles():
    """static obstacles carrying the query shapes (shape in obstacle frame, pose from the anchor)"""
    out = []
    oid = 500
    for sp in netgeo.QUERY_SHAPES:
        for ax, ay in netgeo.ANCHORS[::3]:
            oid += 1
            if sp[0] == "rect":
                local, ori = ["rect", sp[1], sp[2], 0.0, 0.0, 0.0], sp[5]
            elif sp[0] == "circle":
                local, ori = ["circle", sp[1], 0.0, 0.0], 0.0
            elif sp[0] == "group":
                local, ori = sp, 0.0       # orientation 0: placement is a pure translation of every member
            else:
                continue   # polygon shapes rotate about their centroid: placement is C04's business
            osp = {"role": "static", "id": oid, "type": "PARKED_VEHICLE", "shape": local, "initial_state": spec.init_state(x=ax, y=ay, o=ori)}
            if oid % 3 == 0:
                # an obstacle that carries a (stale / foreign) lanelet assignment from elsewhere: the lookups are about geometry, not about what is stored
                osp["initial_shape_lanelet_ids"] = [7]; osp["initial_center_lanelet_ids"] = [7]
            out.append((oid, osp, netgeo.shape_at(sp, ax, ay)))
    return out


def check_network(ids, route_real, res, tmpdir):
    import numpy as np
    case = {"k": "net", "ids": list(ids), "route": route_real}
    # signatures name the route only for the special construction routes
    route = route_real if route_real not in ("from_list", "add_asc", "add_desc", "scenario_add") else "direct"
    try:
        net = build_network(ids, route_real, tmpdir)
    except Exception as e:
        res.violation(f"C06|route:{route}|build-raises:{type(e).__name__}", repr(e), case)
        return
    res.states += 1
    have = sorted(l.lanelet_id for l in net.lanelets)
    if have != sorted(ids):
        res.violation(f"C06|route:{route}|lanelets-lost", f"{have} != {sorted(ids)}", case)
        return
    pts = netgeo.grid_points()
    sx, sy = getattr(net, "_verif_shift", (0.0, 0.0))
    # ---- by position
    res.transitions += 1
    try:
        got = net.find_lanelet_by_position([np.array([p[0] + sx, p[1] + sy]) for p in pts])
    except Exception as e:
        res.violation(f"C06|find_lanelet_by_position|route:{route}|raises:{type(e).__name__}", repr(e), case)
        got = None
    if got is not None:
        for p, g in zip(pts, got):
            exp = [i for i in _at(p) if i in ids]
            res.evals += 1
            if exp:
                res.nontrivial += 1
            g = sorted(int(x) for x in g)
            if g != exp:
                kind = "missing-lanelet" if set(exp) - set(g) else "extra-lanelet"
                if set(exp) - set(g) and set(g) - set(exp):
                    kind = "wrong-id-mapping"
                onb = any(geom.point_on_ring(geom.fr(p), netgeo.ring_of(i)) for i in set(exp) ^ set(g))
                res.violation(f"C06|find_lanelet_by_position|route:{route}|{kind}{'@boundary' if onb else ''}",
                              f"{case} point {p}: got {g} expected {exp}", dict(case, point=list(p)))
            res.outcomes[f"by_position:{len(exp)}"] += 1
    # ---- contains_points per lanelet
    for l in net.lanelets:
        res.transitions += 1
        try:
            flags = l.contains_points(np.array([[p[0] + sx, p[1] + sy] for p in pts]))
        except Exception as e:
            res.violation(f"C06|Lanelet.contains_points|route:{route}|raises:{type(e).__name__}", repr(e), case)
            continue
        for p, f in zip(pts, flags):
            exp = l.lanelet_id in _at(p)
            res.evals += 1
            if bool(f) != exp:
                onb = geom.point_on_ring(geom.fr(p), netgeo.ring_of(l.lanelet_id))
                res.violation(f"C06|Lanelet.contains_points|route:{route}|{'wrong-true' if f else 'wrong-false'}{'@boundary' if onb else ''}",
                              f"{case} lanelet {l.lanelet_id} point {p}: got {bool(f)}", dict(case, point=list(p)))
    # ---- by shape
    for sp0 in netgeo.QUERY_SHAPES:
        if sp0[0] == "group":
            continue    # find_lanelet_by_shape states Circle / Polygon / Rectangle as its precondition (assert); groups are queried as obstacles below
        for ax, ay in netgeo.ANCHORS:
            sp = netgeo.shape_at(sp0, ax, ay)
            hit, und = hit_sets(sp, ids)
            res.evals += 1; res.transitions += 1
            try:
                g = sorted(int(x) for x in net.find_lanelet_by_shape(spec.mk_shape(netgeo.shape_at(sp0, ax + sx, ay + sy))))
            except Exception as e:
                res.violation(f"C06|find_lanelet_by_shape|route:{route}|{sp[0]}|raises:{type(e).__name__}", repr(e), dict(case, shape=sp))
                continue
            g_dec = [i for i in g if i not in und]
            if und:
                res.guarded += 1
            elif hit:
                res.nontrivial += 1
            if g_dec != hit:
                kind = "missing-lanelet" if set(hit) - set(g_dec) else "extra-lanelet"
                res.violation(f"C06|find_lanelet_by_shape|route:{route}|{sp[0]}{'-rotated' if sp[0] == 'rect' and sp[5] else ''}|{kind}",
                              f"{case} shape {sp}: got {g} expected {hit} (undecided {und})", dict(case, shape=sp))
            res.outcomes[f"by_shape:{len(hit)}"] += 1
    # ---- obstacles
    if (sx, sy) != (0.0, 0.0):
        return          # (the obstacle part is done on the unshifted routes)
    obst = mk_query_obstacles()
    objs = [spec.mk_obstacle(o) for _, o, _ in obst]
    exp_map, und_map = {}, {}
    for (oid, _, gsp) in obst:
        hit, und = hit_sets(gsp, ids)
        exp_map[oid], und_map[oid] = hit, und
    res.transitions += 1
    try:
        mp = net.map_obstacles_to_lanelets(objs)
        got_map = {int(k): sorted(o.obstacle_id for o in v) for k, v in mp.items()}
        flt = sorted(o.obstacle_id for o in net.filter_obstacles_in_network(objs))
    except Exception as e:
        res.violation(f"C06|map_obstacles_to_lanelets|route:{route}|raises:{type(e).__name__}", repr(e), case)
        return
    kind_of = {oid: osp["shape"][0] for oid, osp, _ in obst}

    def report(fn, got_ids, exp_ids, where):
        for oid in sorted(set(exp_ids) - set(got_ids)):
            res.violation(f"C06|{fn}|route:{route}|missing-obstacle:{kind_of[oid]}", f"{case} {where}: obstacle {oid} ({kind_of[oid]}) missing; got {got_ids} expected {exp_ids}", case)
        for oid in sorted(set(got_ids) - set(exp_ids)):
            res.violation(f"C06|{fn}|route:{route}|extra-obstacle:{kind_of[oid]}", f"{case} {where}: obstacle {oid} ({kind_of[oid]}) extra; got {got_ids} expected {exp_ids}", case)
    for lid in ids:
        exp = sorted(oid for oid in exp_map if lid in exp_map[oid])
        und = {oid for oid in und_map if lid in und_map[oid]}
        g = [o for o in got_map.get(lid, []) if o not in und]
        res.evals += 1
        report("map_obstacles_to_lanelets", g, exp, f"lanelet {lid}")
        try:
            go = sorted(o.obstacle_id for o in net.find_lanelet_by_id(lid).get_obstacles(objs, 0) if o.obstacle_id not in und)
            report("Lanelet.get_obstacles", go, exp, f"lanelet {lid}")
        except Exception as e:
            res.violation(f"C06|Lanelet.get_obstacles|route:{route}|raises:{type(e).__name__}", repr(e), case)
    exp_f = sorted(oid for oid in exp_map if exp_map[oid])
    und_f = {oid for oid in und_map if und_map[oid] and not exp_map[oid]}
    report("filter_obstacles_in_network", [o for o in flt if o not in und_f], exp_f, "network")


# ------------------------------------------------------------------ shape semantics

SHAPE_ALPHABET = [["rect", 4.0, 2.0, 2.0, 1.0, 0], ["rect", 3.0, 1.0, 4.0, 3.0, math.pi / 2], ["rect", 4.0, 2.0, 6.0, 2.0, 0.6], ["rect", 1.0, 1.0, 0.0, 0.0, 0],
                  ["rect", 4.0, 4.0, 5.0, 2.0, math.pi / 4], ["rect", 6.0, 1.0, 4.0, 1.0, -1.2], ["rect", 4.0, 2.0, 3.0, 3.0, math.pi],
                  ["circle", 2.5, 4.0, 2.0], ["circle", 5.0, 3.0, 0.0], ["circle", 0.5, 10.0, 1.0], ["circle", 1.0, 0.0, 0.0],
                  ["poly", [[0.0, 0.0], [8.0, 0.0], [8.0, 2.0], [4.0, 2.0], [4.0, 6.0], [0.0, 6.0]]], ["poly", [[2.0, -2.0], [10.0, 2.0], [2.0, 2.0]]],
                  ["group", [["rect", 2.0, 2.0, 1.0, 1.0, 0], ["circle", 1.5, 6.0, 4.0]]], ["group", [["poly", [[0.0, 0.0], [3.0, 0.0], [0.0, 3.0]]], ["rect", 2.0, 1.0, 8.0, -3.0, 0]]]]


def expect_contains(sp, p):
    from mc.checks.c08 import shape_contains
    if sp[0] == "group":
        return shape_contains(("group", [tuple(m) for m in sp[1]]), p)
    return shape_contains(tuple(sp), p)


def boundary_dist(sp, p):
    """float distance from p to the boundary of the shape (for the export guard band)"""
    if sp[0] == "circle":
        return abs(math.hypot(p[0] - sp[2], p[1] - sp[3]) - sp[1])
    if sp[0] == "rect":
        R = geom.ring(netgeo.rect_ring(*sp[1:]))
    elif sp[0] == "poly":
        R = geom.ring(sp[1])
    else:
        return min(boundary_dist(m, p) for m in sp[1])
    return math.sqrt(float(geom.dist2_point_boundary(geom.fr(p), R)))


def check_shapes(res):
    import numpy as np
    import shapely.geometry as sg
    from mc.checks.c08 import probe_points
    for sp in SHAPE_ALPHABET:
        case = {"k": "shape", "shape": sp}
        res.states += 1
        # the grid plus points next to the corners / rim of this shape (just inside and just outside)
        pts = netgeo.grid_points() + probe_points(tuple(sp) if sp[0] != "group" else ("group", [tuple(m) for m in sp[1]]))
        for p in pts:
            exp = expect_contains(sp, p)
            res.evals += 1; res.transitions += 1
            try:
                sh = spec.mk_shape(sp)
                got = bool(sh.contains_point(np.array(p)))
            except Exception as e:
                res.violation(f"C06|{sp[0]}.contains_point|raises:{type(e).__name__}", repr(e), dict(case, point=list(p)))
                continue
            if exp is None:
                res.guarded += 1
            else:
                res.nontrivial += 1
                if got != exp:
                    res.violation(f"C06|{sp[0]}.contains_point|containment!=geometry:{'wrong-true' if got else 'wrong-false'}",
                                  f"{sp} point {p}: contains_point={got}", dict(case, point=list(p)))
            # exported geometry: every primitive member on its own
            members = list(zip(sh.shapes, sp[1])) if sp[0] == "group" else [(sh, sp)]
            for m_obj, m_sp in members:
                m_exp = expect_contains(m_sp, p)
                try:
                    exported = bool(m_obj.shapely_object.intersects(sg.Point(p)))
                except Exception as e:
                    res.violation(f"C06|{m_sp[0]}.shapely_object|raises:{type(e).__name__}", repr(e), dict(case, point=list(p)))
                    continue
                bd = boundary_dist(m_sp, p)
                band = 0.01 * m_sp[1] if m_sp[0] == "circle" else 1e-9
                if m_exp is None or (bd <= band and (m_sp[0] == "circle" or (m_sp[0] == "rect" and m_sp[5] != 0))):
                    continue
                if exported != m_exp:
                    res.violation(f"C06|{m_sp[0]}.shapely_object|containment!=geometry:{'extra' if exported else 'missing'}",
                                  f"{m_sp} point {p}: exported geometry contains it: {exported}, the shape's defining parameters say {m_exp}",
                                  dict(case, point=list(p)))
            res.outcomes[f"shape:{exp}"] += 1
        res.sample(case, 2)
        # shapes DERIVED from this one after it has been queried (its caches are filled): the derived shape's point test must denote the set that
        # the derived shape's own public parameters (centre, radius, vertices, length / width / orientation) describe
        from mc.checks.c11 import snap_to_spec
        from mc import snap as _snap
        for how in ("rotate_translate_local", "translate_rotate"):
            for tr, ang in (((3.0, -2.0), 0.0), ((0.0, 0.0), 0.9), ((1.5, 2.0), -2.2)):
                dcase = dict(case, derived=how, t=list(tr), a=ang)
                res.evals += 1; res.transitions += 1
                try:
                    sh = spec.mk_shape(sp)
                    for q in pts[::97]:
                        sh.contains_point(np.array(q))
                    for m in (sh.shapes if sp[0] == "group" else [sh]):
                        m.shapely_object
                    d = getattr(sh, how)(np.array(tr), ang)
                    _snap.RECT_VERTICES = False
                    dsp = snap_to_spec(_snap.shape(d))
                    dq = probe_points(tuple(dsp) if dsp[0] != "group" else ("group", [tuple(m) for m in dsp[1]])) + [(x + tr[0], y + tr[1]) for x, y in pts[::41]]
                    for q in dq:
                        e_ = expect_contains(dsp, q)
                        g_ = bool(d.contains_point(np.array(q)))
                        if e_ is None:
                            res.guarded += 1
                        elif g_ != e_:
                            res.violation(f"C06|{sp[0]}.{how}->contains_point|containment!=own-parameters:{'wrong-true' if g_ else 'wrong-false'}",
                                          f"{sp} after {how}({tr}, {ang}) has parameters {dsp}; point {q}: contains_point={g_}", dict(dcase, point=list(q)))
                            break
                        else:
                            res.nontrivial += 1
                except Exception as e:
                    res.violation(f"C06|{sp[0]}.{how}|raises:{type(e).__name__}", repr(e), dcase)


def subsets(tier):
    ids = sorted(netgeo.LANELETS)
    out = []
    for r in (1, 2) if tier == "quick" else (1, 2, 3):
        out += [list(c) for c in itertools.combinations(ids, r)]
    return out


def describe(tier):
    return {"lanelets": {k: v for k, v in netgeo.LANELETS.items()}, "subsets": len(subsets(tier)), "routes": ROUTES if tier == "thorough" else ROUTES,
            "grid_points": len(netgeo.grid_points()), "query_shapes": netgeo.QUERY_SHAPES, "anchors": len(netgeo.ANCHORS), "shape_alphabet": SHAPE_ALPHABET,
            "exhaustive": True}


def units(tier):
    u = [{"k": "shapes"}]
    for s in subsets(tier):
        for r in ROUTES:
            if tier == "quick" and len(s) == 2 and r in ("pb", "scenario_deepcopy", "pickle") and (s[0] + s[1]) % 3:
                continue   # quick: file/copy routes on a third of the pairs (all singles, all pairs for the other routes)
            u.append({"k": "net", "ids": s, "route": r})
    return u


def run_unit(unit, tier):
    res = Result()
    if unit["k"] == "shapes":
        check_shapes(res)
    else:
        d = tempfile.mkdtemp(prefix="c06_")
        try:
            check_network(unit["ids"], unit["route"], res, d)
        finally:
            import shutil
            shutil.rmtree(d, ignore_errors=True)
        res.sample(unit, 1)
    return res


def replay(case):
    res = Result()
    if case["k"] == "shape":
        check_shapes(res)
    else:
        d = tempfile.mkdtemp(prefix="c06_")
        check_network(case["ids"], case["route"], res, d)
        import shutil
        shutil.rmtree(d, ignore_errors=True)
    return [(s, d) for s, d, _ in res.violations]


def canaries():
    from commonroad.scenario import lanelet as ln

    @contextlib.contextmanager
    def setstate_no_rebuild():
        o = ln.LaneletNetwork.__setstate__

        def bad(self, state):
            self.__dict__.update(state)
            self._strtee = ln.STRtree([])
        ln.LaneletNetwork.__setstate__ = bad
        try:
            yield
        finally:
            ln.LaneletNetwork.__setstate__ = o

    @contextlib.contextmanager
    def index_before_filter():
        o = ln.LaneletNetwork._get_lanelet_id_by_shapely_polygon

        def bad(self, polygon):
            ids = sorted(self._lanelets)
            r = o(self, polygon)
            return ids[0] if len(ids) > 1 and r == ids[-1] else r
        ln.LaneletNetwork._get_lanelet_id_by_shapely_polygon = bad
        try:
            yield
        finally:
            ln.LaneletNetwork._get_lanelet_id_by_shapely_polygon = o
    return [("__setstate__-does-not-rebuild-index", setstate_no_rebuild), ("reverse-map-returns-wrong-id", index_before_filter)]
