"""C03 - every written XML scenario file is valid against the shipped 2020a XSD.  E2-dev x configuration.

Spec set: the C01 spec set (same base, same menu) plus a magnitude menu that drives every place where the writer formats a
number (orientation 1e-6, lengths below 1e-4, coordinates 1e5, huge values, time-step sizes, gps values, scaling, negative zero,
ints) at every decimal precision.  Oracle: (1) lxml XMLSchema built from the shipped XSD (order, required elements, enumerations,
key/keyref), (2) an independent lexical scan: every numeric text node is plain decimal notation, (3) the library's own reader
opens the file.
"""
import contextlib
import copy
import os
import re
import tempfile

from mc.core import Result
from mc import roundtrip, spec, speclib
from mc.checks import c02

PROPERTY = "C03"
FMT = "xml"
RULE = ("all specs within k deviations of the base scenario (general menu, quick: k<=1 x d in {1,4,12} + 1/16 of pairs at d=4; thorough k<=1 x d=1..12 + all "
        "pairs at d=4) plus the magnitude menu at k<=2 x d=1..12. non-trivial = specs with >=1 deviation; distinct (deviation subset, precision)")
ASSUMPTIONS = ["only XSD-valid specs are generated (initial time step 0, later time steps >= 1, goal time interval end >= 1, >=1 lanelet and planning problem, "
               "positive lengths); a length that the *precision-truncating* formatter would turn into 0 is not generated for truncated fields",
               "lxml's XMLSchema implementation is trusted"]


def find(sp, group, ident):
    return speclib.find(sp, group, ident)


def magnitude_menu():
    M = []

    def add(slot, label, fn):
        M.append((slot, label, fn))
    for v in (1e-06, -3e-05, 1e-16, -0.0, 3, 6.25):
        add("O30.shape.o", f"static.rect.orientation={v!r}", lambda s, v=v: find(s, "obstacles", 30).__setitem__("shape", ["rect", 4.5, 2.0, 0.5, 0.25, v]))
        add("O32.occ0.o", f"occupancy.rect.orientation={v!r}", lambda s, v=v: find(s, "obstacles", 32)["prediction"]["occ"][0].__setitem__("shape", ["rect", 3.0, 2.0, 26.0, 2.5, v]))
        add("PP.goal0.rect.o", f"goal.rect.orientation={v!r}", lambda s, v=v: s["pps"][0]["goal"]["states"][0]["attrs"].__setitem__("position", ["rect", 4.0, 2.0, 38.0, 2.5, v]))
        add("O31.init.o", f"dynamic.initial_state.orientation={v!r}", lambda s, v=v: find(s, "obstacles", 31)["initial_state"]["attrs"].__setitem__("orientation", v))
    for v in (5e-05, 1e-4, 1e16, 123456.789, 3, 1e-07):
        add("O30.shape.l", f"static.rect.length={v!r}", lambda s, v=v: find(s, "obstacles", 30).__setitem__("shape", ["rect", v, 2.0, 0.0, 0.0, 0.0]))
        add("O31.shape.w", f"dynamic.rect.width={v!r}", lambda s, v=v: (find(s, "obstacles", 31).__setitem__("shape", ["rect", 4.5, v, 0.0, 0.0, 0.0]),
                                                                       find(s, "obstacles", 31)["prediction"].__setitem__("shape", ["rect", 4.5, v, 0.0, 0.0, 0.0])))
        add("O32.shape.r", f"dynamic.circle.radius={v!r}", lambda s, v=v: find(s, "obstacles", 32).__setitem__("shape", ["circle", v, 0.0, 0.0]))
        add("O33.occ1.r", f"phantom.occupancy.circle.radius={v!r}", lambda s, v=v: find(s, "obstacles", 33)["prediction"]["occ"][1].__setitem__("shape", ["circle", v, 36.0, 3.0]))
        add("O34.shape.r", f"environment.circle.radius={v!r}", lambda s, v=v: find(s, "obstacles", 34).__setitem__("shape", ["circle", v, 4.0, 10.0]))
    for v in (1e5, 123456.789, -1e-05, 1e-07, 1e16, -0.0, 7):
        add("L1.left0.x", f"L1.left[0].x={v!r}", lambda s, v=v: find(s, "lanelets", 1)["left"][0].__setitem__(0, v))
        add("O30.init.x", f"static.initial_state.position.x={v!r}", lambda s, v=v: find(s, "obstacles", 30)["initial_state"]["attrs"]["position"].__setitem__(0, v))
        add("O34.poly.x", f"environment.polygon.x={v!r}", lambda s, v=v: find(s, "obstacles", 34)["shape"][1][0].__setitem__(0, v))
        add("S10.pos.y", f"sign.position.y={v!r}", lambda s, v=v: find(s, "signs", 10)["position"].__setitem__(1, v))
        add("O31.traj1.v", f"trajectory[1].velocity={v!r}", lambda s, v=v: find(s, "obstacles", 31)["prediction"]["states"][1]["attrs"].__setitem__("velocity", v))
        add("PP.init.v", f"pp.initial_state.velocity={v!r}", lambda s, v=v: s["pps"][0]["initial_state"]["attrs"].__setitem__("velocity", v))
    # small polygons far from the origin (UTM-like coordinates): neighbouring vertices agree to many leading digits
    for bx, by in ((1e5, 2e5), (-654321.5, 5412345.25), (3e6, -1e5)):
        tri = [[bx, by], [bx + 0.5, by], [bx + 0.25, by + 0.375]]
        quad = [[bx, by], [bx + 0.25, by], [bx + 0.25, by + 0.5], [bx, by + 0.5]]
        add("O34.shape.far", f"environment.polygon=small-triangle-at({bx!r},{by!r})", lambda s, tri=tri: find(s, "obstacles", 34).__setitem__("shape", ["poly", copy.deepcopy(tri)]))
        add("O32.occ0.far", f"occupancy.polygon=small-quad-at({bx!r},{by!r})", lambda s, quad=quad: find(s, "obstacles", 32)["prediction"]["occ"][0].__setitem__("shape", ["poly", copy.deepcopy(quad)]))
        add("PP.goal0.far", f"goal.polygon=small-triangle-at({bx!r},{by!r})", lambda s, tri=tri: s["pps"][0]["goal"]["states"][0]["attrs"].__setitem__("position", ["poly", copy.deepcopy(tri)]))
    # a 3-D lanelet (a ramp that starts at ground level): heights 0.0 (exactly), 0.5, 1.25 -- and one with -0.0
    for zs in ([0.0, 0.5, 1.25], [1.5, 0.0, 0.0], [-0.0, 2.0, 0.0]):
        def ramp(s, zs=zs):
            l = find(s, "lanelets", 3)
            l["left"] = [[0.0, 7.0, zs[0]], [10.25, 7.0, zs[1]], [20.5, 7.125, zs[2]]]
            l["right"] = [[0.0, 3.5, zs[0]], [10.25, 3.5, zs[1]], [20.5, 3.625, zs[2]]]
            l["center"] = [[0.0, 5.25, zs[0]], [10.25, 5.25, zs[1]], [20.5, 5.375, zs[2]]]
            l.pop("adj_right", None); find(s, "lanelets", 1).pop("adj_left", None)
        add("L3.3d", f"L3=3-D-ramp-heights={zs}", ramp)
    for v in (0.1, 1e-05, 2, 0.04, 1e-07, 12.5):
        add("dt", f"dt={v!r}", lambda s, v=v: s.__setitem__("dt", v))
    for v in (1e-07, -1e-05, 48, 179.99999999, 1e-16):
        add("loc.lat", f"gps_latitude={v!r}", lambda s, v=v: s["location"].__setitem__("lat", v))
        add("loc.lon", f"gps_longitude={v!r}", lambda s, v=v: s["location"].__setitem__("lon", v))
        add("geo.x", f"geo.x_translation={v!r}", lambda s, v=v: s["location"]["geo"].__setitem__("x", v))
        add("geo.rot", f"geo.z_rotation={v!r}", lambda s, v=v: s["location"]["geo"].__setitem__("rot", v))
    for v in (1e-06, 1e-05, 2, 1e16):
        add("geo.scale", f"geo.scaling={v!r}", lambda s, v=v: s["location"]["geo"].__setitem__("scale", v))
    return M


# (removals of network elements are left out on purpose: what they reach may refer to the removed element from the planning problems or leave a sign
#  without referencing lanelet - not schema-expressible, hence outside this property's quantifier; reference clean-up is C10's subject)
EDITS = ["translate_rotate", "remove_obstacle(30)", "remove_obstacle(31)", "remove_obstacle(32)"]


def _edit(sc, pps, name):
    """a public editing operation applied to the built scenario before it is written (the scenario reached by it is still schema-expressible)"""
    import numpy as np
    net = sc.lanelet_network
    if name == "translate_rotate":
        sc.translate_rotate(np.array([100.0, -50.0]), 0.5); pps.translate_rotate(np.array([100.0, -50.0]), 0.5)
        return
    fn, arg = name[:-1].split("(")
    arg = int(arg)
    if fn.startswith("net."):
        getattr(net, fn[4:])(arg)
        return
    obj = {"remove_traffic_light": net.find_traffic_light_by_id, "remove_traffic_sign": net.find_traffic_sign_by_id, "remove_lanelet": net.find_lanelet_by_id,
           "remove_intersection": net.find_intersection_by_id, "remove_obstacle": sc.obstacle_by_id}[fn](arg)
    if obj is None:
        raise LookupError(name)
    getattr(sc, fn)(obj)


def validate(sp, labels, precision, res, tmpdir, edit=None):
    from lxml import etree
    case = {"labels": list(labels), "precision": precision}
    if edit is not None:
        case["edit"] = edit
    res.evals += 1; res.transitions += 2; res.states += 1
    if labels:
        res.nontrivial += 1
    try:
        sc, pps = spec.build(sp)
    except Exception as e:
        res.guarded += 1
        res.outcomes[f"spec-rejected-by-constructors:{type(e).__name__}"] += 1
        return
    if edit is not None:
        try:
            _edit(sc, pps, edit)
        except Exception as e:
            res.guarded += 1          # the operation itself is the subject of C09 / C10 / C05
            res.outcomes[f"edit-not-applicable:{type(e).__name__}"] += 1
            return
        labels = tuple(labels) + (f"then:{edit}",)
    fn = os.path.join(tmpdir, f"v{os.getpid()}.xml")
    try:
        if sum(map(ord, "".join(labels))) % 5 == 0:
            # every fifth spec (fixed by its labels): the file is the SECOND thing the writer is asked to write - the first request names a directory
            # that does not exist and fails.  Whatever a failed call leaves behind must not end up in the next file.
            from commonroad.common.file_writer import CommonRoadFileWriter, OverwriteExistingFile
            from commonroad.common.util import FileFormat
            w = CommonRoadFileWriter(sc, pps, sc.author, sc.affiliation, sc.source, sc.tags, sc.location, decimal_precision=precision, file_format=FileFormat.XML)
            try:
                w.write_to_file(os.path.join(tmpdir, "no-such-directory", "x.xml"), OverwriteExistingFile.ALWAYS)
            except Exception:
                pass
            w.write_to_file(fn, OverwriteExistingFile.ALWAYS)
            case = dict(case, after_failed_write=True)
        else:
            roundtrip.write(sc, pps, FMT, fn, precision)
    except Exception as e:
        res.violation(f"C03|write|raises:{type(e).__name__}:{c02._san(e)}", f"{labels} d={precision}: {e!r}", case)
        return
    data = open(fn, "rb").read()
    try:
        doc = etree.fromstring(data)
    except Exception as e:
        res.violation(f"C03|not-well-formed:{type(e).__name__}", f"{labels}: {e!r}", case)
        return
    schema = roundtrip.xsd()
    if not schema.validate(doc):
        seen = set()
        for err in schema.error_log:
            msg = err.message
            kind = ("exponent-or-nonnumeric" if "is not a valid value of the atomic type 'xs:decimal'" in msg or "positiveDecimal" in msg and "not a valid value" in msg else
                    "min-exclusive" if "minExclusive" in msg else
                    "order" if "This element is not expected" in msg else
                    "missing" if "Missing child element" in msg else
                    "enum" if "enumeration" in msg else
                    "keyref" if "key-sequence" in msg or "keyref" in msg.lower() else
                    "duplicate-key" if "Duplicate key" in msg else "other")
            m = re.search(r"Element '([^']+)'", msg)
            el = m.group(1) if m else "?"
            sig = f"C03|{el}|{kind}"
            if sig not in seen:
                seen.add(sig)
                res.violation(sig, f"{list(labels)} d={precision}: line {err.line}: {msg[:300]}", case)
    for xp, txt in roundtrip.xml_lexical_scan(data):
        kind = "nan-inf" if re.search(r"nan|inf", txt, re.I) else ("exponent" if re.search(r"[eE]", txt) else "not-decimal")
        res.violation(f"C03|{roundtrip.strip_indices(xp)}|lexical:{kind}", f"{list(labels)} d={precision}: {xp} = {txt!r}", case)
    try:
        roundtrip.read(FMT, fn)
    except Exception as e:
        res.violation(f"C03|reader-rejects:{type(e).__name__}:{c02._san(e)}", f"{list(labels)} d={precision}: {e!r}", case)
    res.outcomes[f"validated:d={precision}"] += 1


def precisions(tier):
    return [1, 4, 12] if tier == "quick" else list(range(1, 13))


def describe(tier):
    return {"general_menu": len(speclib.menu(FMT)), "magnitude_menu": len(magnitude_menu()), "precisions_general": precisions(tier), "precisions_magnitude": list(range(1, 13)),
            "general_pairs": "1/16 at d=4" if tier == "quick" else "all at d=4", "magnitude_pairs": "all at d in {1,4}" if tier == "quick" else "all at d in {1,2,4,12}", "exhaustive": True}


def units(tier):
    n = len(speclib.menu(FMT))
    u = [{"k": 0}]
    for d in precisions(tier):
        u += [{"k": 1, "menu": "general", "lo": i, "hi": min(n, i + 60), "d": d} for i in range(0, n, 60)]
    for d in range(1, 13):
        u.append({"k": 1, "menu": "magnitude", "d": d})
    for d in ((1, 4) if tier == "quick" else (1, 2, 4, 12)):
        for sh in range(8):
            u.append({"k": 2, "menu": "magnitude", "d": d, "shard": sh, "of": 8})
    # scenarios reached by a public editing operation (removal of a network element / obstacle, rigid motion) from the base and from every
    # deviation that concerns the references between network elements
    for e in range(len(EDITS)):
        u.append({"k": 3, "menu": "general", "edit": e, "d": 4})
    for sh in range(128):
        u.append({"k": 2, "menu": "general", "shard": sh, "of": 128, "slice": 16 if tier == "quick" else 1, "d": 4})
    return u


def run_unit(unit, tier):
    res = Result()
    base = speclib.base()
    d = tempfile.mkdtemp(prefix="c03_")
    try:
        if unit["k"] == 0:
            for p in range(1, 13):
                validate(base, (), p, res, d)
            return res
        M = speclib.menu(FMT) if unit["menu"] == "general" else magnitude_menu()
        if unit["k"] == 3:
            validate(base, (), unit["d"], res, d, edit=EDITS[unit["edit"]])
            for i in range(len(M)):
                if M[i][0].split(".")[0] not in ("L1", "L2", "L3", "L4", "I20", "T11", "alias") and "refs" not in M[i][0]:
                    continue
                if M[i][0].split(".")[0] in ("L1", "L2", "L3") and not any(w_ in M[i][0] + M[i][1] for w_ in ("ref", "stop", "sign", "light", "succ", "pred", "adj")):
                    continue
                sp = copy.deepcopy(base)
                if M[i][2](sp) is False:
                    continue
                validate(sp, (M[i][1],), unit["d"], res, d, edit=EDITS[unit["edit"]])
            res.sample({"edit": EDITS[unit["edit"]]}, 1)
            return res
        if unit["k"] == 1:
            rng = range(unit["lo"], unit["hi"]) if unit["menu"] == "general" else range(len(M))
            for i in rng:
                sp = copy.deepcopy(base)
                if M[i][2](sp) is False:
                    continue
                validate(sp, (M[i][1],), unit["d"], res, d)
                res.sample({"deviations": [M[i][1]], "precision": unit["d"]}, 2)
        else:
            n = len(M)
            for i in range(n):
                for j in range(i + 1, n):
                    if (i * 31 + j) % unit["of"] != unit["shard"]:
                        continue
                    if unit.get("slice", 1) > 1 and (i + j) % unit["slice"]:
                        continue
                    if M[i][0] == M[j][0] or (unit["menu"] == "general" and speclib.conflicts(M[i][0], M[j][0])):
                        continue
                    sp = copy.deepcopy(base)
                    try:
                        if M[i][2](sp) is False or M[j][2](sp) is False:
                            continue
                    except (KeyError, IndexError, TypeError, AttributeError):
                        continue
                    validate(sp, (M[i][1], M[j][1]), unit["d"], res, d)
                    res.sample({"deviations": [M[i][1], M[j][1]], "precision": unit["d"]}, 2)
    finally:
        import shutil
        shutil.rmtree(d, ignore_errors=True)
    return res


def replay(case):
    res = Result()
    allm = {m[1]: m for m in speclib.menu(FMT) + magnitude_menu()}
    sp = copy.deepcopy(speclib.base())
    for l in case["labels"]:
        allm[l][2](sp)
    d = tempfile.mkdtemp(prefix="c03_")
    validate(sp, tuple(case["labels"]), case.get("precision", 4), res, d, edit=case.get("edit"))
    import shutil
    shutil.rmtree(d, ignore_errors=True)
    return [(s, dd) for s, dd, _ in res.violations]


def canaries():
    from commonroad.common.writer import file_writer_xml as w

    @contextlib.contextmanager
    def bidirectional_before_oneway():
        o = w.LaneletXMLNode.create_node

        def bad(cls, lanelet):
            node = o.__func__(cls, lanelet)
            one = [c for c in node if c.tag == "userOneWay"]
            bi = [c for c in node if c.tag == "userBidirectional"]
            if one and bi:
                idx = list(node).index(one[0])
                for c in bi:
                    node.remove(c)
                for k, c in enumerate(bi):
                    node.insert(idx + k, c)
            return node
        w.LaneletXMLNode.create_node = classmethod(bad)
        try:
            yield
        finally:
            w.LaneletXMLNode.create_node = o

    @contextlib.contextmanager
    def repr_for_points():
        o = w.float_to_str
        w.float_to_str = lambda f: repr(float(f))
        try:
            yield
        finally:
            w.float_to_str = o
    return [("userBidirectional-before-userOneWay", bidirectional_before_oneway), ("repr-for-coordinates", repr_for_points)]
