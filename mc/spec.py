"""Scenario specs: canonical JSON-able descriptions of scenarios + planning-problem sets, and builders that turn a spec
into FRESH real objects through the public constructors only (explicit values for every mutable-default parameter).

value spec (state attributes):   number | ["iv", a, b] | ["aiv", a, b] | [x, y] (position) | shape spec (position region)
shape spec:   ["rect", l, w, cx, cy, o] | ["circle", r, cx, cy] | ["poly", [[x,y],...]] | ["group", [shape spec,...]]
state spec:   {"cls": "KSState"|...|"CustomState", "attrs": {name: value spec}}
"""
import copy


_SHARED = {}
_SHARED_SETS = {}


def _shared_set(sp, key):
    """sp[key + "_shared"] = name: every lanelet spec that names the same key gets the SAME set object (a caller-owned set passed to two constructors)"""
    name = sp.get(key + "_shared")
    if name is None:
        return set(sp.get(key, []))
    if name not in _SHARED_SETS:
        _SHARED_SETS[name] = set(sp.get(key, []))
    return _SHARED_SETS[name]


def mk_shape(sp):
    import numpy as np
    from commonroad.geometry.shape import Rectangle, Circle, Polygon, ShapeGroup
    if sp is None:
        return None
    k = sp[0]
    if k == "ref":
        # ["ref", key, shape spec]: every use of the same key within one build() yields the SAME shape object (a shared instance)
        if sp[1] not in _SHARED:
            _SHARED[sp[1]] = mk_shape(sp[2])
        return _SHARED[sp[1]]
    if k == "rect":
        return Rectangle(sp[1], sp[2], np.array([sp[3], sp[4]], dtype=float), sp[5])
    if k == "circle":
        return Circle(sp[1], np.array([sp[2], sp[3]], dtype=float))
    if k == "poly":
        return Polygon(np.array(sp[1], dtype=float))
    if k == "group":
        return ShapeGroup([mk_shape(s) for s in sp[1]])
    raise KeyError(k)


def mk_value(name, v):
    import numpy as np
    from commonroad.common.util import Interval, AngleInterval
    if isinstance(v, (list, tuple)):
        if v and v[0] == "iv":
            return Interval(v[1], v[2])
        if v and v[0] == "aiv":
            return AngleInterval(v[1], v[2])
        if v and isinstance(v[0], str):
            return mk_shape(v)
        return np.array(v, dtype=float)
    return v


def mk_state(sp):
    from commonroad.scenario import state as st
    if sp is None:
        return None
    cls = getattr(st, sp["cls"])
    return cls(**{k: mk_value(k, v) for k, v in sp["attrs"].items()})


def mk_signal(sp):
    from commonroad.scenario.state import SignalState
    if sp is None:
        return None
    return SignalState(**sp)


def mk_prediction(sp):
    from commonroad.prediction.prediction import TrajectoryPrediction, SetBasedPrediction, Occupancy
    from commonroad.scenario.trajectory import Trajectory
    if sp is None:
        return None
    if sp["k"] == "trajectory":
        kw = {}
        if sp.get("center_assign") is not None:
            kw["center_lanelet_assignment"] = {int(t): set(v) for t, v in sp["center_assign"].items()}
        if sp.get("shape_assign") is not None:
            kw["shape_lanelet_assignment"] = {int(t): set(v) for t, v in sp["shape_assign"].items()}
        return TrajectoryPrediction(Trajectory(sp["t0"], [mk_state(s) for s in sp["states"]]), mk_shape(sp["shape"]), **kw)
    occ = [Occupancy(mk_value("time_step", o["t"]) if isinstance(o["t"], list) else o["t"], mk_shape(o["shape"])) for o in sp["occ"]]
    return SetBasedPrediction(sp["t0"], occ)


def mk_obstacle(sp):
    from commonroad.scenario.obstacle import StaticObstacle, DynamicObstacle, EnvironmentObstacle, PhantomObstacle, ObstacleType
    role = sp["role"]
    if role == "environment":
        return EnvironmentObstacle(sp["id"], ObstacleType[sp["type"]], mk_shape(sp["shape"]))
    if role == "phantom":
        return PhantomObstacle(sp["id"], mk_prediction(sp.get("prediction")))
    kw = dict(obstacle_id=sp["id"], obstacle_type=ObstacleType[sp["type"]], obstacle_shape=mk_shape(sp["shape"]), initial_state=mk_state(sp["initial_state"]))
    if "initial_center_lanelet_ids" in sp:
        kw["initial_center_lanelet_ids"] = None if sp["initial_center_lanelet_ids"] is None else set(sp["initial_center_lanelet_ids"])
    if "initial_shape_lanelet_ids" in sp:
        kw["initial_shape_lanelet_ids"] = None if sp["initial_shape_lanelet_ids"] is None else set(sp["initial_shape_lanelet_ids"])
    if "initial_signal_state" in sp:
        kw["initial_signal_state"] = mk_signal(sp["initial_signal_state"])
    if "signal_series" in sp:
        kw["signal_series"] = None if sp["signal_series"] is None else [mk_signal(s) for s in sp["signal_series"]]
    if role == "static":
        return StaticObstacle(**kw)
    kw["prediction"] = mk_prediction(sp.get("prediction"))
    return DynamicObstacle(**kw)


def mk_stop_line(sp):
    import numpy as np
    from commonroad.common.common_lanelet import StopLine, LineMarking
    if sp is None:
        return None
    return StopLine(None if sp.get("start") is None else np.array(sp["start"], dtype=float), None if sp.get("end") is None else np.array(sp["end"], dtype=float),
                    LineMarking[sp["marking"]], None if sp.get("sign_ref") is None else set(sp["sign_ref"]),
                    None if sp.get("light_ref") is None else set(sp["light_ref"]))


def center_of(left, right):
    return [[(a[0] + b[0]) / 2.0, (a[1] + b[1]) / 2.0] for a, b in zip(left, right)]


def mk_lanelet(sp):
    import numpy as np
    from commonroad.scenario.lanelet import Lanelet
    from commonroad.common.common_lanelet import LineMarking, LaneletType, RoadUser
    left, right = sp["left"], sp["right"]
    center = sp.get("center") or center_of(left, right)
    al, ar = sp.get("adj_left"), sp.get("adj_right")
    return Lanelet(np.array(left, dtype=float), np.array(center, dtype=float), np.array(right, dtype=float), sp["id"],
                   predecessor=list(sp.get("pred", [])), successor=list(sp.get("succ", [])),
                   adjacent_left=None if al is None else al[0], adjacent_left_same_direction=None if al is None else al[1],
                   adjacent_right=None if ar is None else ar[0], adjacent_right_same_direction=None if ar is None else ar[1],
                   line_marking_left_vertices=LineMarking[sp.get("mark_left", "NO_MARKING")],
                   line_marking_right_vertices=LineMarking[sp.get("mark_right", "NO_MARKING")],
                   stop_line=mk_stop_line(sp.get("stop_line")),
                   lanelet_type={LaneletType[t] for t in sp.get("types", [])},
                   user_one_way={RoadUser[u] for u in sp.get("users_one_way", [])},
                   user_bidirectional={RoadUser[u] for u in sp.get("users_bidirectional", [])},
                   traffic_signs=_shared_set(sp, "signs"), traffic_lights=_shared_set(sp, "lights"), adjacent_areas=set())


def mk_sign(sp):
    import numpy as np
    from commonroad.scenario import traffic_sign as ts
    els = [ts.TrafficSignElement(getattr(ts, e[0])[e[1]], list(e[2])) for e in sp["elements"]]
    return ts.TrafficSign(sp["id"], els, set(sp.get("first_occurrence", [])), None if sp.get("position") is None else np.array(sp["position"], dtype=float),
                          bool(sp.get("virtual", False)))


def mk_light(sp):
    import numpy as np
    from commonroad.scenario.traffic_light import TrafficLight, TrafficLightCycle, TrafficLightCycleElement, TrafficLightState, TrafficLightDirection
    cyc = None
    if sp.get("cycle") is not None:
        cyc = TrafficLightCycle([TrafficLightCycleElement(TrafficLightState[s], d) for s, d in sp["cycle"]], time_offset=sp.get("offset", 0),
                                active=sp.get("cycle_active", True))
    tl = TrafficLight(sp["id"], None if sp.get("position") is None else np.array(sp["position"], dtype=float), cyc,
                      active=sp.get("active", True), direction=TrafficLightDirection[sp.get("direction", "ALL")])
    if "active_set_later" in sp:
        tl.active = sp["active_set_later"]          # through the public setter, after construction
    return tl


def mk_intersection(sp):
    from commonroad.scenario.intersection import Intersection, IntersectionIncomingElement
    incs = [IntersectionIncomingElement(i["id"], set(i.get("lanelets", [])), set(i.get("right", [])), set(i.get("straight", [])), set(i.get("left", [])),
                                        None if i.get("left_of_set_later") else i.get("left_of")) for i in sp["incomings"]]
    for inc, i in zip(incs, sp["incomings"]):
        if i.get("left_of_set_later"):
            inc.left_of = i.get("left_of")          # through the public setter, after construction
    return Intersection(sp["id"], incs, set(sp.get("crossings", [])))


def mk_location(sp):
    from commonroad.scenario.scenario import Location, GeoTransformation, Environment, TimeOfDay, Weather, Underground
    from commonroad.common.util import Time
    if sp is None:
        return None
    g, e = sp.get("geo"), sp.get("env")
    geo = None if g is None else GeoTransformation(g.get("ref"), g.get("x"), g.get("y"), g.get("rot"), g.get("scale"))
    env = None if e is None else Environment(Time(*e["time"]), TimeOfDay[e["time_of_day"]], Weather[e["weather"]], Underground[e["underground"]])
    return Location(sp.get("geo_name_id", -999), sp.get("lat", 999), sp.get("lon", 999), geo, env)


def mk_sid(sp):
    from commonroad.scenario.scenario import ScenarioID
    sp = sp or {}
    return ScenarioID(cooperative=sp.get("coop", False), country_id=sp.get("country", "ZAM"), map_name=sp.get("map", "Test"), map_id=sp.get("map_id", 1),
                      configuration_id=sp.get("conf"), obstacle_behavior=sp.get("beh"), prediction_id=sp.get("pred"), scenario_version=sp.get("ver", "2020a"))


def mk_network(spec, via="add"):
    from commonroad.scenario.lanelet import LaneletNetwork, MapInformation
    from commonroad.common.util import Time
    _SHARED_SETS.clear()
    net = LaneletNetwork(MapInformation(date=Time(12, 0, 1, 1, 2020)))
    for l in spec.get("lanelets", []):
        net.add_lanelet(mk_lanelet(l))
    for s in spec.get("signs", []):
        net.add_traffic_sign(mk_sign(s), set())
    for t in spec.get("lights", []):
        net.add_traffic_light(mk_light(t), set())
    for i in spec.get("intersections", []):
        net.add_intersection(mk_intersection(i))
    return net


def mk_goal(sp):
    from commonroad.planning.goal import GoalRegion
    lan = sp.get("lanelets")
    lan = None if lan is None else {int(k): list(v) for k, v in lan.items()}
    return GoalRegion([mk_state(s) for s in sp["states"]], lan)


def mk_pps(spec):
    from commonroad.planning.planning_problem import PlanningProblem, PlanningProblemSet
    pps = PlanningProblemSet([])
    for p in spec.get("pps", []):
        pps.add_planning_problem(PlanningProblem(p["id"], mk_state(p["initial_state"]), mk_goal(p["goal"])))
    return pps


def build(spec):
    """-> (Scenario, PlanningProblemSet), all objects fresh"""
    from commonroad.scenario.scenario import Scenario, Tag
    _SHARED.clear(); _SHARED_SETS.clear()
    sc = Scenario(spec.get("dt", 0.1), mk_sid(spec.get("sid")), author=spec.get("author", "A. Author"),
                  tags=None if spec.get("tags") is None else {Tag[t] for t in spec["tags"]},
                  affiliation=spec.get("affiliation", "TUM"), source=spec.get("source", "handmade"), location=mk_location(spec.get("location")))
    sc.add_objects(mk_network(spec))
    for o in spec.get("obstacles", []):
        sc.add_objects(mk_obstacle(o))
    return sc, mk_pps(spec)


# ------------------------------------------------------------------------------------------ base building blocks

def lane(i, x0=0.0, y0=0.0, length=20.0, width=3.0, n=3, **kw):
    xs = [x0 + length * j / (n - 1) for j in range(n)]
    d = {"id": i, "left": [[x, y0 + width] for x in xs], "right": [[x, y0] for x in xs]}
    d.update(kw)
    return d


def init_state(x=2.0, y=1.5, o=0.0, v=5.0, t=0, **extra):
    a = {"time_step": t, "position": [x, y], "orientation": o, "velocity": v, "acceleration": 0.0, "yaw_rate": 0.0, "slip_angle": 0.0}
    a.update(extra)
    return {"cls": "InitialState", "attrs": a}


def goal_state(t=(5, 10), **extra):
    a = {"time_step": ["iv", t[0], t[1]]}
    a.update(extra)
    return {"cls": "CustomState", "attrs": a}


def pp(i=100, goal_states=None, lanelets=None, **init):
    return {"id": i, "initial_state": init_state(**init), "goal": {"states": goal_states or [goal_state(position=["rect", 4.0, 2.0, 15.0, 1.5, 0.0])],
                                                                   "lanelets": lanelets}}


def minimal():
    """smallest XSD-valid scenario: one lanelet, one planning problem"""
    return {"dt": 0.1, "sid": {"country": "DEU", "map": "Test", "map_id": 1, "conf": 1, "beh": "T", "pred": 1}, "tags": ["URBAN"],
            "location": None, "lanelets": [lane(1)], "signs": [], "lights": [], "intersections": [], "obstacles": [], "pps": [pp()]}


def clone(spec):
    return copy.deepcopy(spec)
