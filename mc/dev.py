"""E2-dev: enumerate *all* specs within k deviations of a base spec.

A deviation is (slot, label, fn): fn(spec) mutates a deep copy of the base in place.  Two deviations conflict when
they have the same slot (they set the same thing) or when ``conflicts(slot_a, slot_b)`` says so.  The enumeration is
complete: every subset of size <= k of pairwise non-conflicting deviations, in menu order (so that the first
counterexample has the fewest deviations and the simplest letters)."""
import copy
import itertools


def enumerate_specs(base, menu, k, conflicts=None):
    """yields (labels tuple, spec)"""
    yield (), copy.deepcopy(base)
    for r in range(1, k + 1):
        for combo in itertools.combinations(range(len(menu)), r):
            slots = [menu[i][0] for i in combo]
            if len(set(slots)) < r:
                continue
            if conflicts and any(conflicts(a, b) for a, b in itertools.combinations(slots, 2)):
                continue
            spec = copy.deepcopy(base)
            ok = True
            for i in combo:
                if menu[i][2](spec) is False:
                    ok = False
                    break
            if ok:
                yield tuple(menu[i][1] for i in combo), spec


def count_specs(menu, k, conflicts=None):
    n = 1
    for r in range(1, k + 1):
        for combo in itertools.combinations(range(len(menu)), r):
            slots = [menu[i][0] for i in combo]
            if len(set(slots)) < r:
                continue
            if conflicts and any(conflicts(a, b) for a, b in itertools.combinations(slots, 2)):
                continue
            n += 1
    return n
