"""C05 - translate_rotate is the exact rigid motion on every object.  E2-grid.

Space: component kinds (alone and all unordered pairs inside one scenario + planning-problem set) x levels (whole scenario +
planning-problem set / each contained object individually / stand-alone leaf objects) x translations x angles (dense
near 0, at +-0.05, multiples of pi/2, interval ends; float and int).  Oracle: snapshot of every stored point and orientation
through public accessors before and after; expected = R(a)(p + t) and theta + a computed with math.cos/sin on the snapshot;
undoing the motion must restore the snapshot; nothing else may change; no call may raise.
"""
import contextlib
import itertools
import math

from mc.core import Result
from mc import snap, spec

PROPERTY = "C05"
RULE = ("full product component kinds (singles, all unordered pairs at 8 angles) x application level x 3 translations x angle "
        "alphabet; a case is non-trivial when the angle or the translation is non-zero; distinct by construction")
ASSUMPTIONS = ["TrafficLight.shape is not in the statement's list and is not compared",
               "velocity components (vx, vy) of point-mass states are not points or orientations; they are not asserted",
               "tolerance 1e-9*(1+|coordinates|+|t|) for points, 1e-9 for angles (modulo 2pi, result inside [-2pi, 2pi])"]

PI = math.pi
ANGLES_F = [0.0, 1e-9, -1e-9, 8e-9, -8e-9, 3e-8, -3e-8, 1e-6, -1e-6, 1e-3, -1e-3, 0.01, -0.01, 0.049, -0.049, 0.05, -0.05, 0.051, -0.051, 0.1, -0.1, 0.5, -0.5, 1.0, -1.0,
            2.5, -2.5, 4.0, -4.0, 6.0, -6.0, PI / 2, -PI / 2, PI, -PI, 3 * PI / 2, -3 * PI / 2, 2 * PI, -2 * PI]
# both sides of every distinguished angle: the floats next to each quarter turn (towards 0) and 1e-10 short of it -- a shortcut that recognises
# "a quarter turn" by closeness must still rotate by the angle it was given
ANGLES_F += [f(q) for q in (PI / 2, -PI / 2, PI, -PI, 3 * PI / 2, -3 * PI / 2, 2 * PI, -2 * PI) for f in (lambda q: math.nextafter(q, 0.0), lambda q: q * (1 - 1e-10))]
ANGLES_F += [math.nextafter(PI / 2, 4.0), math.nextafter(-PI, -4.0)]
ANGLES_I = [0, 1, -1, 4, -4, 6, -6]
PAIR_ANGLES = [0.0, 0.05, -0.03, 0.3, PI / 2, -2.5, 2 * PI, 1]
TRANS = [(0.0, 0.0), (3.5, -2.0), (1000.0, 7.0)]


def angle_class(a):
    if a == 0:
        return "zero"
    if abs(a) <= 0.05:
        return "small<=0.05"
    if abs(abs(a) - 2 * PI) < 1e-12:
        return "full"
    if min(abs(abs(a) - k * PI / 2) for k in (1, 2, 3)) < 1e-12:
        return "quarter"
    if min(abs(abs(a) - k * PI / 2) for k in (1, 2, 3, 4)) < 1e-8:
        return "near-quarter"
    return "generic"


# ------------------------------------------------------------------------------ component kinds (spec fragments)

def ks(t, x, y, o=0.3, v=4.0):
    return {"cls": "KSState", "attrs": {"time_step": t, "position": [x, y], "orientation": o, "velocity": v, "steering_angle": 0.0}}


def frag(kind):
    """returns a function that adds the component to a minimal spec"""
    def f(sp):
        if kind == "lanelet+stopline":
            sp["lanelets"].append(spec.lane(2, x0=20.0, y0=1.0, pred=[1], types=["URBAN"], n=4,
                                            stop_line={"start": [38.0, 1.0], "end": [38.5, 4.0], "marking": "SOLID", "sign_ref": [], "light_ref": []}))
        elif kind == "sign":
            sp["signs"].append({"id": 10, "elements": [("TrafficSignIDGermany", "MAX_SPEED", ["50"])], "first_occurrence": [1], "position": [5.0, 4.5], "virtual": False})
            sp["lanelets"][0].setdefault("signs", []).append(10)
            # ... and a virtual sign (no physical object, but a position like any other sign)
            sp["signs"].append({"id": 12, "elements": [("TrafficSignIDGermany", "MAX_SPEED", ["30"])], "first_occurrence": [1], "position": [15.0, -1.5], "virtual": True})
            sp["lanelets"][0]["signs"].append(12)
        elif kind == "light":
            sp["lights"].append({"id": 11, "position": [19.0, 4.5], "cycle": [("RED", 2), ("GREEN", 3)], "offset": 0, "active": True, "direction": "ALL"})
            sp["lanelets"][0].setdefault("lights", []).append(11)
        elif kind == "static-rect":
            sp["obstacles"].append({"role": "static", "id": 30, "type": "PARKED_VEHICLE", "shape": ["rect", 4.0, 2.0, 0.0, 0.0, 0.0], "initial_state": spec.init_state(x=10.0, y=1.0, o=0.4)})
        elif kind == "static-shapes":
            for i, sh in enumerate((["circle", 1.5, 0.5, -0.25], ["poly", [[-1.0, -1.0], [2.0, -1.0], [2.0, 1.0], [-1.0, 2.0]]],
                                    ["group", [["rect", 2.0, 1.0, 0.5, 0.5, 0.2], ["circle", 0.5, -1.0, 0.0]]], ["rect", 3.0, 1.0, 1.0, -0.5, 0.7])):
                sp["obstacles"].append({"role": "static", "id": 40 + i, "type": "PARKED_VEHICLE", "shape": sh, "initial_state": spec.init_state(x=3.0 + 4 * i, y=2.0, o=-0.6)})
        elif kind == "dynamic-trajectory":
            sp["obstacles"].append({"role": "dynamic", "id": 31, "type": "CAR", "shape": ["rect", 4.5, 2.0, 0.0, 0.0, 0.0], "initial_state": spec.init_state(x=2.0, y=1.5, o=0.1),
                                    "prediction": {"k": "trajectory", "t0": 1, "shape": ["rect", 4.5, 2.0, 0.0, 0.0, 0.0],
                                                   "states": [ks(1, 3.0, 1.6, 0.1), ks(2, 4.0, 1.8, 0.2), ks(3, 5.0, 2.1, -3.0)]}})
        elif kind == "dynamic-set":
            sp["obstacles"].append({"role": "dynamic", "id": 32, "type": "BICYCLE", "shape": ["circle", 0.5, 0.0, 0.0], "initial_state": spec.init_state(x=6.0, y=1.0, o=2.0),
                                    "prediction": {"k": "set", "t0": 1, "occ": [{"t": 1, "shape": ["rect", 3.0, 2.0, 7.0, 1.0, 0.3]}, {"t": 2, "shape": ["circle", 2.0, 8.0, 1.5]},
                                                                                {"t": 3, "shape": ["poly", [[8.0, 0.0], [11.0, 0.5], [10.0, 3.0]]]},
                                                                                {"t": 4, "shape": ["group", [["rect", 1.0, 1.0, 9.0, 1.0, 0.0], ["circle", 0.5, 12.0, 1.0]]]}]}})
        elif kind == "at-origin":
            # obstacles standing exactly on the origin: a fixed point of every pure rotation, so their position is bit-identical before and after
            # it while orientation and occupied region are not (seed C05_r10_1)
            sp["obstacles"].append({"role": "static", "id": 60, "type": "PARKED_VEHICLE", "shape": ["rect", 4.0, 2.0, 0.0, 0.0, 0.0], "initial_state": spec.init_state(x=0.0, y=0.0, o=0.4)})
            sp["obstacles"].append({"role": "dynamic", "id": 61, "type": "CAR", "shape": ["rect", 3.0, 1.0, 0.0, 0.0, 0.0], "initial_state": spec.init_state(x=0.0, y=0.0, o=-0.7)})
            sp["obstacles"].append({"role": "dynamic", "id": 62, "type": "CAR", "shape": ["rect", 4.5, 2.0, 0.0, 0.0, 0.0], "initial_state": spec.init_state(x=0.0, y=0.0, o=0.1),
                                    "prediction": {"k": "trajectory", "t0": 1, "shape": ["rect", 4.5, 2.0, 0.0, 0.0, 0.0],
                                                   "states": [ks(1, 0.0, 0.0, 0.3), ks(2, 1.0, 0.0, 0.2)]}})
        elif kind == "set-same-step":
            # set-based predictions holding several occupancies for one time step (alternative regions), for a dynamic and a phantom obstacle:
            # every stored occupancy is moved, not only the one occupancy_at_time_step returns (seed C05_r10_2)
            sp["obstacles"].append({"role": "dynamic", "id": 63, "type": "BICYCLE", "shape": ["circle", 0.5, 0.0, 0.0], "initial_state": spec.init_state(x=6.0, y=1.0, o=2.0),
                                    "prediction": {"k": "set", "t0": 1, "occ": [{"t": 1, "shape": ["rect", 3.0, 2.0, 7.0, 1.0, 0.3]}, {"t": 1, "shape": ["circle", 2.0, 8.0, 3.5]},
                                                                                {"t": 2, "shape": ["poly", [[8.0, 0.0], [11.0, 0.5], [10.0, 3.0]]]},
                                                                                {"t": 2, "shape": ["rect", 1.0, 1.0, 9.0, 4.0, 0.0]}]}})
            sp["obstacles"].append({"role": "phantom", "id": 64, "prediction": {"k": "set", "t0": 0, "occ": [{"t": 0, "shape": ["rect", 3.0, 2.0, 12.0, 1.0, -0.2]},
                                                                                                           {"t": 1, "shape": ["circle", 1.0, 13.0, 1.5]},
                                                                                                           {"t": 1, "shape": ["rect", 2.0, 1.0, 14.0, 3.5, 0.6]}]}})
        elif kind == "phantom":
            sp["obstacles"].append({"role": "phantom", "id": 33, "prediction": {"k": "set", "t0": 0, "occ": [{"t": 0, "shape": ["rect", 3.0, 2.0, 12.0, 1.0, -0.2]},
                                                                                                           {"t": 1, "shape": ["circle", 1.0, 13.0, 1.5]}]}})
        elif kind == "environment":
            sp["obstacles"].append({"role": "environment", "id": 34, "type": "BUILDING", "shape": ["poly", [[0.0, 6.0], [8.0, 6.0], [8.0, 10.0], [3.0, 12.0], [0.0, 10.0]]]})
            sp["obstacles"].append({"role": "environment", "id": 35, "type": "PILLAR", "shape": ["circle", 0.4, 15.0, 7.0]})
        elif kind == "uncertain":
            for i, (pos, ori) in enumerate(((["rect", 2.0, 1.0, 9.0, 1.5, 0.2], ["aiv", -0.2, 0.4]), (["circle", 0.8, 9.0, 1.5], 0.3),
                                            (["poly", [[8.0, 1.0], [10.0, 1.0], [10.0, 2.5], [9.0, 2.5]]], ["aiv", 2.9, 3.4]))):
                st = spec.init_state(t=0)
                st["attrs"]["position"] = pos
                st["attrs"]["orientation"] = ori
                st["attrs"]["velocity"] = ["iv", 2.0, 4.0]
                sp["obstacles"].append({"role": "static" if i else "dynamic", "id": 50 + i, "type": "CAR", "shape": ["rect", 4.0, 2.0, 0.0, 0.0, 0.0], "initial_state": st,
                                        **({"prediction": {"k": "trajectory", "t0": 1, "shape": ["rect", 4.0, 2.0, 0.0, 0.0, 0.0],
                                                           "states": [{"cls": "KSState", "attrs": {"time_step": 1, "position": ["rect", 2.0, 1.0, 10.0, 1.5, 0.3],
                                                                                                   "orientation": ["aiv", -0.1, 0.5], "velocity": 3.0, "steering_angle": 0.0}}]}} if i == 0 else {})})
        elif kind == "planning":
            sp["pps"].append(spec.pp(101, x=4.0, y=1.0, o=-1.2, goal_states=[
                spec.goal_state(position=["rect", 4.0, 2.0, 15.0, 1.5, 0.5], orientation=["aiv", -0.5, 0.5], velocity=["iv", 0.0, 10.0]),
                spec.goal_state(position=["circle", 2.0, 18.0, 1.0]),
                spec.goal_state(position=["poly", [[14.0, 0.0], [18.0, 0.0], [18.0, 3.0], [14.0, 2.0]]], orientation=["aiv", 2.5, 4.5]),
                spec.goal_state(position=["group", [["rect", 2.0, 2.0, 12.0, 1.0, 0.0], ["circle", 1.0, 13.5, 2.0]]])]))
            # two more planning problems whose goal regions are EQUAL to each other (separate objects), as in a cooperative set
            for pid in (102, 103):
                sp["pps"].append(spec.pp(pid, x=6.0, y=1.0, o=0.2, goal_states=[spec.goal_state(position=["rect", 3.0, 2.0, 17.0, 1.5, 0.25], orientation=["aiv", -0.25, 0.75])]))
        elif kind == "stopline-without-points":
            # a stop line that only says "at the end of the lanelet" (no start / end points), as the file formats allow
            sp["lanelets"].append(dict(spec.lane(7, x0=0.0, y0=12.0), stop_line={"start": None, "end": None, "marking": "SOLID", "sign_ref": [], "light_ref": []}))
        elif kind in ("base", "shared-boundary-array", "dynamic-with-history"):
            pass
        else:
            raise KeyError(kind)
    return f


def post_build(kinds, sc):
    """components that cannot be expressed as a spec: two adjacent lanelets sharing ONE ndarray object as common boundary"""
    if "dynamic-with-history" in kinds:
        # a dynamic obstacle that was advanced twice with update_initial_state: its two earlier initial states are kept in its history
        o = spec.mk_obstacle({"role": "dynamic", "id": 36, "type": "CAR", "shape": ["rect", 4.0, 2.0, 0.0, 0.0, 0.0], "initial_state": spec.init_state(x=1.0, y=1.25, o=0.05, t=0)})
        o.update_initial_state(spec.mk_state(spec.init_state(x=2.5, y=1.5, o=0.125, t=1)))
        o.update_initial_state(spec.mk_state(spec.init_state(x=4.0, y=1.75, o=0.25, t=2)))
        sc.add_objects(o)
    if "shared-boundary-array" in kinds:
        import numpy as np
        from commonroad.scenario.lanelet import Lanelet
        lo = np.array([[0.0, -6.0], [10.0, -6.0], [20.0, -6.0]])
        mid = np.array([[0.0, -3.0], [10.0, -3.0], [20.0, -3.0]])
        hi = np.array([[0.0, 0.0 - 0.5], [10.0, -0.5], [20.0, -0.5]])
        sc.add_objects(Lanelet(mid, (lo + mid) / 2, lo, 5, adjacent_left=6, adjacent_left_same_direction=True))
        sc.add_objects(Lanelet(hi, (hi + mid) / 2, mid, 6, adjacent_right=5, adjacent_right_same_direction=True))


KINDS = ["base", "shared-boundary-array", "lanelet+stopline", "stopline-without-points", "dynamic-with-history", "sign", "light", "static-rect", "static-shapes", "dynamic-trajectory", "dynamic-set", "set-same-step", "at-origin", "phantom", "environment",
         "uncertain", "planning"]


def build(kinds):
    sp = spec.minimal()
    sp["lanelets"][0]["types"] = ["URBAN"]
    for k in kinds:
        frag(k)(sp)
    return sp


def full_snapshot(sc, pps):
    snap.RECT_VERTICES = True   # reading .vertices also fills the rectangles' caches before the motion is applied
    s = snap.scenario(sc, meta=False)
    for t in s["network"]["lights"].values():
        t.pop("color", None)
    # what the obstacles occupy (derived from states and shapes, cached inside predictions): read before the motion - which fills the caches -
    # and after it; the occupied regions are moved like everything else
    occ = {}
    import numpy as np
    from commonroad.geometry.shape import Rectangle, Circle
    from commonroad.prediction.prediction import TrajectoryPrediction

    def exact(st):
        return isinstance(getattr(st, "position", None), np.ndarray) and isinstance(getattr(st, "orientation", 0.0), (int, float))
    for o in sc.obstacles:
        # decided where a rigid motion of the states implies a rigid motion of the occupied region: exact states and a shape centred on the
        # origin of the obstacle frame (uncertain states give enclosures, off-centre shapes depend on the pivot convention; both are C04's)
        sh = getattr(o, "obstacle_shape", None)
        p = getattr(o, "prediction", None)
        if not (isinstance(sh, (Rectangle, Circle)) and not np.any(sh.center) and hasattr(o, "initial_state") and exact(o.initial_state)):
            continue
        if p is not None and not (isinstance(p, TrajectoryPrediction) and isinstance(p.shape, (Rectangle, Circle)) and not np.any(p.shape.center)
                                  and all(exact(st) for st in p.trajectory.state_list)):
            continue
        occ[o.obstacle_id] = []
        for t in range(0, 6):
            x = o.occupancy_at_time(t)
            occ[o.obstacle_id].append(None if x is None else snap.shape(x.shape))
    return {"scenario": s, "pps": snap.planning_problem_set(pps), "occupied": occ}


def scale_of(s0, t):
    pts = snap.points(s0)
    m = max([abs(c) for p in pts for c in p] + [0.0])
    return 1.0 + m + abs(t[0]) + abs(t[1])


def apply_level(level, sc, pps, t, a):
    import numpy as np
    tv = np.array(t, dtype=float)
    if level == "scenario":
        sc.translate_rotate(tv, a)
        pps.translate_rotate(tv, a)
    elif level == "objects":
        sc.lanelet_network.translate_rotate(tv, a)
        for o in sc.obstacles:
            o.translate_rotate(tv, a)
        for p in pps.planning_problem_dict.values():
            p.translate_rotate(tv, a)
    elif level == "parts":
        net = sc.lanelet_network
        for l in net.lanelets:
            l.translate_rotate(tv, a)
        for s in net.traffic_signs:
            s.translate_rotate(tv, a)
        for tl in net.traffic_lights:
            tl.translate_rotate(tv, a)
        for o in sc.obstacles:
            o.translate_rotate(tv, a)
        for p in pps.planning_problem_dict.values():
            p.initial_state = p.initial_state.translate_rotate(tv, a)
            p.goal.translate_rotate(tv, a)
    else:
        raise KeyError(level)


def check_motion(kinds, level, t, a, atype, res):
    case = {"kinds": list(kinds), "level": level, "t": list(t), "a": a, "atype": atype}
    ang = int(a) if atype == "int" else float(a)
    res.evals += 1; res.transitions += 1
    if a != 0 or t != (0.0, 0.0):
        res.nontrivial += 1
    sc, pps = spec.build(build(kinds))
    post_build(kinds, sc)
    s0 = full_snapshot(sc, pps)
    scale = scale_of(s0, t)
    tag = f"C05|{level}|{'+'.join(kinds)}|angle-class:{angle_class(a)}"
    try:
        apply_level(level, sc, pps, t, ang)
    except Exception as e:
        import re
        res.violation(f"C05|{level}|raises:{type(e).__name__}:{re.sub(r'[^A-Za-z0-9_.]+', '_', str(e))[:60]}", f"{case}: {e!r}", case)
        return
    s1 = full_snapshot(sc, pps)
    exp = snap.rigid(s0, t, float(a))
    bad = False
    for path, kind, detail in snap.diff(exp, s1, tol_point=1e-9, tol_real=0.0, angle_mod=True, scale=scale):
        comp = snap.strip_index(path)
        res.violation(f"C05|{level}|angle-class:{angle_class(a)}|{comp}:{kind}", f"{case}: {path}: {detail}", case)
        bad = True
    if bad:
        return
    # undo: T(0,-a) then T(-t,0)
    try:
        apply_level(level, sc, pps, (0.0, 0.0), -ang)
        apply_level(level, sc, pps, (-t[0], -t[1]), 0 if atype == "int" else 0.0)
    except Exception as e:
        res.violation(f"C05|{level}|undo|raises:{type(e).__name__}", f"{case}: {e!r}", case)
        return
    s2 = full_snapshot(sc, pps)
    for path, kind, detail in snap.diff(s0, s2, tol_point=1e-8, tol_real=0.0, angle_mod=True, scale=scale, tol_angle=1e-8):
        res.violation(f"C05|{level}|angle-class:{angle_class(a)}|undo-does-not-restore:{snap.strip_index(path)}:{kind}", f"{case}: {path}: {detail}", case)
    res.outcomes[f"ok:{angle_class(a)}"] += 1


# ------------------------------------------------------------------------------ stand-alone leaf objects

def leaf_objects():
    """name -> (factory, snapshot fn, apply fn returning the transformed object)"""
    import numpy as np
    from commonroad.common.common_lanelet import StopLine, LineMarking

    def inplace(o, t, a):
        o.translate_rotate(np.array(t, dtype=float), a)
        return o

    def ret(o, t, a):
        return o.translate_rotate(np.array(t, dtype=float), a)
    L = {}
    for name, sh in (("Rectangle", ["rect", 4.0, 2.0, 1.0, -2.0, 0.7]), ("Rectangle-ori-near-2pi", ["rect", 4.0, 2.0, 1.0, -2.0, 6.2]), ("Circle", ["circle", 1.5, -3.0, 2.0]),
                     ("Polygon", ["poly", [[0.0, 0.0], [4.0, 0.0], [5.0, 3.0], [1.0, 2.0]]]), ("ShapeGroup", ["group", [["rect", 2.0, 1.0, 0.5, 0.5, -0.2], ["circle", 0.5, -1.0, 0.0]]])):
        L[name] = (lambda sh=sh: spec.mk_shape(sh), snap.shape, ret)
    for name, stt in (("KSState", ks(1, 3.0, -1.0, 0.3)), ("State-region-interval", {"cls": "KSState", "attrs": {"time_step": 1, "position": ["rect", 2.0, 1.0, 3.0, 1.0, 0.2], "orientation": ["aiv", -0.3, 0.9],
                                                                                                                  "velocity": 1.0, "steering_angle": 0.0}}),
                      ("State-ori-interval-near-end", {"cls": "KSState", "attrs": {"time_step": 1, "position": [1.0, 1.0], "orientation": ["aiv", 5.0, 6.2], "velocity": 1.0, "steering_angle": 0.0}}),
                      ("InitialState", spec.init_state(x=-4.0, y=2.0, o=-3.0)), ("CustomState-circle-region", {"cls": "CustomState", "attrs": {"time_step": 2, "position": ["circle", 1.0, 2.0, 2.0], "orientation": 1.0}}),
                      ("STState", {"cls": "STState", "attrs": {"time_step": 1, "position": [1.0, 2.0], "orientation": -6.0, "velocity": 1.0, "steering_angle": 0.0, "yaw_rate": 0.0, "slip_angle": 0.0}})):
        L[name] = (lambda stt=stt: spec.mk_state(stt), snap.state, ret)
    L["Trajectory"] = (lambda: spec.mk_prediction({"k": "trajectory", "t0": 1, "shape": ["rect", 4.0, 2.0, 0.0, 0.0, 0.0], "states": [ks(1, 1.0, 1.0), ks(2, 2.0, 1.5, 3.0)]}).trajectory,
                       snap.trajectory, inplace)
    L["Occupancy"] = (lambda: spec.mk_prediction({"k": "set", "t0": 1, "occ": [{"t": 1, "shape": ["rect", 3.0, 2.0, 7.0, 1.0, 0.3]}]}).occupancy_set[0], snap.occupancy, inplace)
    L["TrajectoryPrediction"] = (lambda: spec.mk_prediction({"k": "trajectory", "t0": 1, "shape": ["rect", 4.0, 2.0, 0.0, 0.0, 0.0], "states": [ks(1, 1.0, 1.0), ks(2, 2.0, 1.5, 3.0)]}),
                                 snap.prediction, inplace)
    L["SetBasedPrediction"] = (lambda: spec.mk_prediction({"k": "set", "t0": 1, "occ": [{"t": 1, "shape": ["rect", 3.0, 2.0, 7.0, 1.0, 0.3]}, {"t": 2, "shape": ["circle", 1.0, 8.0, 1.0]}]}),
                               snap.prediction, inplace)
    L["StopLine"] = (lambda: StopLine(np.array([1.0, 2.0]), np.array([1.5, 5.0]), LineMarking.SOLID, set(), set()), snap.stop_line, inplace)
    L["Lanelet"] = (lambda: spec.mk_lanelet(spec.lane(7, x0=-5.0, y0=2.0, n=4, stop_line={"start": [10.0, 2.0], "end": [10.0, 5.0], "marking": "DASHED"})), snap.lanelet, inplace)
    L["TrafficSign"] = (lambda: spec.mk_sign({"id": 10, "elements": [("TrafficSignIDGermany", "STOP", [])], "first_occurrence": [1], "position": [5.0, 4.5]}), snap.sign, inplace)
    L["TrafficLight"] = (lambda: spec.mk_light({"id": 11, "position": [19.0, 4.5], "cycle": [("RED", 2)]}), lambda t: {k: v for k, v in snap.light(t).items() if k != "color"}, inplace)
    L["GoalRegion"] = (lambda: spec.mk_goal({"states": [spec.goal_state(position=["rect", 4.0, 2.0, 15.0, 1.5, 0.5], orientation=["aiv", -0.5, 0.5]),
                                                        spec.goal_state(position=["circle", 2.0, 18.0, 1.0], orientation=["aiv", 4.0, 6.0])], "lanelets": None}), snap.goal, inplace)
    # trajectories whose states mix exact and uncertain positions / orientations (the attribute SETS are equal, the value kinds are not)
    mixed = lambda order: spec.mk_prediction({"k": "trajectory", "t0": 1, "shape": ["rect", 4.0, 2.0, 0.0, 0.0, 0.0], "states": [
        {"cls": "KSState", "attrs": {"time_step": 1 + i, "position": pos, "orientation": ori, "velocity": 3.0, "steering_angle": 0.0}} for i, (pos, ori) in enumerate(order)]})
    ex, r_, c_, p_ = ([2.0, 1.0], 0.3), (["rect", 2.0, 1.0, 4.0, 1.5, 0.2], ["aiv", -0.1, 0.5]), (["circle", 0.8, 6.0, 2.0], 0.6), (["poly", [[7.0, 1.0], [9.0, 1.0], [8.0, 2.5]]], ["aiv", 2.9, 3.4])
    L["Trajectory-exact-then-uncertain"] = (lambda: mixed([ex, r_, c_, p_]).trajectory, snap.trajectory, inplace)
    L["Trajectory-uncertain-then-exact"] = (lambda: mixed([r_, ex, p_, ex]).trajectory, snap.trajectory, inplace)
    L["TrajectoryPrediction-mixed"] = (lambda: mixed([ex, c_, ex, r_]), snap.prediction, inplace)
    # goal states that constrain an orientation (or only a velocity) without a position
    L["GoalRegion-no-position"] = (lambda: spec.mk_goal({"states": [spec.goal_state(orientation=["aiv", -0.5, 0.5]), spec.goal_state(velocity=["iv", 0.0, 5.0]),
                                                                    spec.goal_state(position=["circle", 2.0, 18.0, 1.0], orientation=["aiv", 4.0, 6.0]),
                                                                    spec.goal_state(orientation=["aiv", -6.0, -5.5], velocity=["iv", 1.0, 2.0])], "lanelets": None}), snap.goal, inplace)
    # the same kinds of objects with INTEGER-typed coordinate arrays (np.array([5, 4])): a stored point is a point whatever its dtype
    from commonroad.geometry.shape import Rectangle, Circle, Polygon
    from commonroad.scenario.traffic_sign import TrafficSign, TrafficSignElement, TrafficSignIDGermany
    from commonroad.scenario.traffic_light import TrafficLight, TrafficLightCycle, TrafficLightCycleElement, TrafficLightState
    from commonroad.scenario.lanelet import Lanelet
    from commonroad.scenario.state import KSState, CustomState
    from commonroad.scenario.obstacle import EnvironmentObstacle, ObstacleType
    from commonroad.prediction.prediction import Occupancy
    ia = lambda *v: np.array(v, dtype=int)
    L["int:Rectangle"] = (lambda: Rectangle(4.0, 2.0, ia(1, -2), 0.7), snap.shape, ret)
    L["int:Circle"] = (lambda: Circle(1.5, ia(-3, 2)), snap.shape, ret)
    L["int:Polygon"] = (lambda: Polygon(np.array([[0, 0], [4, 0], [5, 3], [1, 2]], dtype=int)), snap.shape, ret)
    L["int:KSState"] = (lambda: KSState(time_step=1, position=ia(3, -1), orientation=0.3, velocity=2.0, steering_angle=0.0), snap.state, ret)
    L["int:State-circle-region"] = (lambda: CustomState(time_step=2, position=Circle(1.0, ia(2, 2)), orientation=1.0), snap.state, ret)
    L["int:Occupancy"] = (lambda: Occupancy(1, Rectangle(3.0, 2.0, ia(7, 1), 0.3)), snap.occupancy, inplace)
    L["int:StopLine"] = (lambda: StopLine(ia(1, 2), ia(1, 5), LineMarking.SOLID, set(), set()), snap.stop_line, inplace)
    L["int:Lanelet"] = (lambda: Lanelet(np.array([[0, 4], [10, 4], [20, 6]], dtype=int), np.array([[0, 2], [10, 2], [20, 4]], dtype=int), np.array([[0, 0], [10, 0], [20, 2]], dtype=int), 7), snap.lanelet, inplace)
    L["int:TrafficSign"] = (lambda: TrafficSign(10, [TrafficSignElement(TrafficSignIDGermany.STOP, [])], {1}, ia(5, 4)), snap.sign, inplace)
    L["int:TrafficLight"] = (lambda: TrafficLight(11, ia(19, 4), TrafficLightCycle([TrafficLightCycleElement(TrafficLightState.RED, 2)])),
                             lambda t: {k: v for k, v in snap.light(t).items() if k != "color"}, inplace)
    L["int:EnvironmentObstacle"] = (lambda: EnvironmentObstacle(60, ObstacleType.BUILDING, Rectangle(4.0, 2.0, ia(6, -3), 0.25)), snap.obstacle, inplace)
    return L


def check_leaf(name, t, a, atype, res):
    fac, snp, app = leaf_objects()[name]
    case = {"leaf": name, "t": list(t), "a": a, "atype": atype}
    ang = int(a) if atype == "int" else float(a)
    res.evals += 1; res.transitions += 1
    if a != 0 or t != (0.0, 0.0):
        res.nontrivial += 1
    snap.RECT_VERTICES = True
    o = fac()
    s0 = snp(o)
    scale = scale_of(s0, t)
    try:
        o1 = app(o, t, ang)
    except Exception as e:
        res.violation(f"C05|{name}.translate_rotate|angle-class:{angle_class(a)}|raises:{type(e).__name__}", f"{case}: {e!r}", case)
        return
    s1 = snp(o1)
    bad = False
    for path, kind, detail in snap.diff(snap.rigid(s0, t, float(a)), s1, tol_point=1e-9, angle_mod=True, scale=scale):
        res.violation(f"C05|{name}.translate_rotate|angle-class:{angle_class(a)}|{snap.strip_index(path)}:{kind}", f"{case}: {path}: {detail}", case)
        bad = True
    if bad:
        return
    # a shape is a point set: a probe point p belongs to the original exactly when R(a)(p + t) belongs to the moved shape (whatever the moved shape
    # caches internally must describe the same set as its vertices / centre / radius)
    if hasattr(o1, "contains_point") and s0.get("k") in ("rect", "circle", "poly", "group"):
        import numpy as np
        from mc.checks.c08 import probe_points, shape_contains
        from mc.checks.c11 import snap_to_spec
        sp0 = snap_to_spec(s0)
        tup = lambda x: tuple(tup(y) for y in x) if isinstance(x, list) else x
        c_, s_ = math.cos(float(a)), math.sin(float(a))
        for px, py in probe_points(tup(sp0) if sp0[0] != "group" else ("group", [tup(m) for m in sp0[1]])):
            inside = shape_contains(tup(sp0) if sp0[0] != "group" else ("group", [tup(m) for m in sp0[1]]), (px, py))
            if inside is None:
                continue
            qx, qy = c_ * (px + t[0]) - s_ * (py + t[1]), s_ * (px + t[0]) + c_ * (py + t[1])
            try:
                got = bool(o1.contains_point(np.array([qx, qy])))
            except Exception as e:
                res.violation(f"C05|{name}.translate_rotate|angle-class:{angle_class(a)}|contains_point-raises:{type(e).__name__}", f"{case}: {e!r}", case)
                return
            if got != inside:
                res.violation(f"C05|{name}.translate_rotate|angle-class:{angle_class(a)}|moved-shape-is-another-point-set", f"{case}: probe ({px},{py}) -> ({qx},{qy}): original {inside}, moved {got}", case)
                return
    try:
        o2 = app(o1, (0.0, 0.0), -ang)
        o2 = app(o2, (-t[0], -t[1]), 0.0)
    except Exception as e:
        res.violation(f"C05|{name}.translate_rotate|undo|raises:{type(e).__name__}", f"{case}: {e!r}", case)
        return
    for path, kind, detail in snap.diff(s0, snp(o2), tol_point=1e-8, angle_mod=True, scale=scale, tol_angle=1e-8):
        res.violation(f"C05|{name}.translate_rotate|angle-class:{angle_class(a)}|undo-does-not-restore:{snap.strip_index(path)}:{kind}", f"{case}: {path}: {detail}", case)
    res.outcomes[f"leaf-ok:{angle_class(a)}"] += 1


def angle_list():
    return [(a, "float") for a in ANGLES_F] + [(a, "int") for a in ANGLES_I]


def describe(tier):
    return {"kinds": KINDS, "levels": ["scenario", "objects", "parts"], "leaf_objects": sorted(leaf_objects()), "translations": TRANS,
            "angles_float": ANGLES_F, "angles_int": ANGLES_I, "pairs": "all unordered pairs of kinds at " + ("8 angles" if tier == "quick" else "all angles"),
            "exhaustive": True}


def units(tier):
    u = [{"k": "single", "kind": k} for k in KINDS]
    u += [{"k": "leaf", "name": n} for n in sorted(leaf_objects())]
    for a, b in itertools.combinations([k for k in KINDS if k != "base"], 2):
        u.append({"k": "pair", "kinds": [a, b]})
    u.append({"k": "all"})
    return u


def run_unit(unit, tier):
    res = Result()
    if unit["k"] == "single":
        kinds = ["base"] if unit["kind"] == "base" else [unit["kind"]]
        for level in ("scenario", "objects", "parts"):
            for t in TRANS:
                for a, ty in angle_list():
                    check_motion(kinds, level, t, a, ty, res)
        res.states += 1
        res.sample({"kinds": kinds, "levels": 3, "translations": len(TRANS), "angles": len(angle_list())}, 1)
    elif unit["k"] == "leaf":
        for t in TRANS:
            for a, ty in angle_list():
                check_leaf(unit["name"], t, a, ty, res)
        res.states += 1
        res.sample({"leaf": unit["name"]}, 1)
    elif unit["k"] == "pair":
        angles = [(a, "int" if isinstance(a, int) else "float") for a in PAIR_ANGLES] if tier == "quick" else angle_list()
        for t in (TRANS[1],) if tier == "quick" else TRANS:
            for a, ty in angles:
                check_motion(unit["kinds"], "scenario", t, a, ty, res)
        res.states += 1
        res.sample({"kinds": unit["kinds"]}, 1)
    else:
        kinds = [k for k in KINDS if k != "base"]
        for level in ("scenario", "objects"):
            for t in TRANS:
                for a, ty in angle_list():
                    check_motion(kinds, level, t, a, ty, res)
        res.states += 1
        res.sample({"kinds": "all together"}, 1)
    return res


def replay(case):
    res = Result()
    if "leaf" in case:
        check_leaf(case["leaf"], tuple(case["t"]), case["a"], case["atype"], res)
    else:
        check_motion(case["kinds"], case["level"], tuple(case["t"]), case["a"], case["atype"], res)
    return [(s, d) for s, d, _ in res.violations]


def canaries():
    from commonroad.scenario import scenario as sc, state as st
    from commonroad.planning import goal as g
    from commonroad.geometry import transform as tr

    @contextlib.contextmanager
    def skip_phantom():
        o = sc.Scenario.translate_rotate

        def bad(self, translation, angle):
            self._lanelet_network.translate_rotate(translation, angle)
            for ob in self.obstacles:
                if type(ob).__name__ != "PhantomObstacle":
                    ob.translate_rotate(translation, angle)
        sc.Scenario.translate_rotate = bad
        try:
            yield
        finally:
            sc.Scenario.translate_rotate = o

    @contextlib.contextmanager
    def state_forgets_region():
        o = st.State.translate_rotate

        def bad(self, translation, angle):
            from commonroad.geometry.shape import Shape
            if hasattr(self, "position") and isinstance(self.position, Shape):
                import copy
                s = copy.copy(self)
                p = s.position
                s.position = None
                r = o(s, translation, angle)
                r.position = p
                return r
            return o(self, translation, angle)
        st.State.translate_rotate = bad
        try:
            yield
        finally:
            st.State.translate_rotate = o

    @contextlib.contextmanager
    def goal_rebinds():
        o = g.GoalRegion.translate_rotate

        def bad(self, translation, angle):
            for i, s in enumerate(self.state_list):
                s = s.translate_rotate(translation, angle)
        g.GoalRegion.translate_rotate = bad
        try:
            yield
        finally:
            g.GoalRegion.translate_rotate = o

    @contextlib.contextmanager
    def sign_flipped():
        o = tr.translation_rotation_matrix

        def bad(translation, angle):
            return o(translation, -angle if abs(angle) > 3.0 else angle)
        tr.translation_rotation_matrix = bad
        try:
            yield
        finally:
            tr.translation_rotation_matrix = o
    return [("Scenario-skips-phantom", skip_phantom), ("State-forgets-region", state_forgets_region), ("GoalRegion-rebinds-local", goal_rebinds),
            ("rotation-sign-flipped-for-large-angles", sign_flipped)]
