import sys
from mc.core import main

if __name__ == "__main__":
    sys.exit(main(sys.argv[1:]))
