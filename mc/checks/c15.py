"""C15 - a file writer's output depends only on its own inputs.  E1: BFS over histories of constructing and using writers.

State: the writers constructed so far (format, decimal precision, scenario) and the files written.  Operations: construct a writer
(XML / protobuf x precisions x 2 scenarios), write_to_file / write_scenario_to_file to a fresh path, write_to_file onto an existing
file with SKIP and with ALWAYS.  Oracle (differential): every produced file, date stamp masked, equals the file produced by the
PRISTINE history [construct the same writer, call the same method] and reads back to the scenario; SKIP leaves the bytes untouched.
"""
import contextlib
import hashlib
import json
import os
import re
import tempfile

from mc.core import Result
from mc import bfs, roundtrip, spec, speclib

PROPERTY = "C15"
RULE = ("BFS over all histories of writer constructions and write calls up to the depth bound, sharded by the first two operations; states de-duplicated "
        "on (per writer: format, precision, scenario, number of full / scenario-only writes; process-global precision; number of files). non-trivial = "
        "histories in which some writer writes after another writer was constructed or used, or writes twice")
ASSUMPTIONS = ["the date stamp (XML attribute 'date', protobuf information.date) is masked", "pristine reference = a writer constructed with the same arguments "
               "and used immediately, once per (format, precision, scenario, method)", "both scenarios carry reals with >= 13 significant decimals so that "
               "every precision yields a different XML file"]

FORMATS = ["xml", "pb"]


def precisions(tier):
    return [1, 12] if tier == "quick" else [1, 4, 12]


def scen_spec(name):
    sp = speclib.base()
    k = 0.0123456789012 if name == "s1" else 0.0987654321098
    for l in sp["lanelets"]:
        for side in ("left", "right"):
            for p in l[side]:
                p[0] += k; p[1] += k / 2
    for o in sp["obstacles"]:
        if "initial_state" in o:
            a = o["initial_state"]["attrs"]
            a["position"] = [a["position"][0] + k, a["position"][1] + k]
            a["velocity"] = a["velocity"] + k
    # keep the lanelet goal consistent with the shifted lanelet
    sp["pps"][0]["goal"]["states"][1]["attrs"]["position"] = speclib.lanelet_goal_shape(sp, [2])
    if name == "s1":
        # (s1's set-based obstacle has an occupancy whose time interval has equal bounds: it stays an interval)
        speclib.find(sp, "obstacles", 32)["prediction"]["occ"][1]["t"] = ["iv", 2, 2]
        # the goal lanelets of s1 are listed in non-ascending order (a writer that tidies its input in place changes what the next writer sees)
        sp["pps"][0]["goal"]["lanelets"] = {1: [2, 1]}
        sp["pps"][0]["goal"]["states"][1]["attrs"]["position"] = speclib.lanelet_goal_shape(sp, [2, 1])
    # a signal series on the obstacle with the set-based prediction
    speclib.find(sp, "obstacles", 32)["signal_series"] = [{"time_step": 1, "horn": False, "indicator_left": True, "indicator_right": False, "braking_lights": True,
                                                           "hazard_warning_lights": False, "flashing_blue_lights": False}]
    if name == "s2":
        # s2 leaves optional data at the constructor defaults where s1 sets it: a lanelet without type, users and markings, initial states without
        # acceleration (a writer that completes its input in place would leak into later files)
        l3 = speclib.find(sp, "lanelets", 3)
        for k in ("types", "users_bidirectional", "mark_left", "mark_right"):
            l3.pop(k, None)
        for o in sp["obstacles"]:
            if "initial_state" in o:
                o["initial_state"]["attrs"].pop("acceleration", None)
        sp["pps"][0]["initial_state"]["attrs"].pop("acceleration", None)
        # goal lanelets on the first goal state only, the later goal state is a plain shape
        sp["pps"][0]["goal"]["lanelets"] = {0: [1]}
        sp["pps"][0]["goal"]["states"][0]["attrs"]["position"] = speclib.lanelet_goal_shape(sp, [1])
        sp["pps"][0]["goal"]["states"][1]["attrs"]["position"] = ["circle", 3.0, 30.0, 2.0]
        sp["obstacles"] = [o for o in sp["obstacles"] if o["id"] != 33]
        sp["sid"] = {"country": "DEU", "map": "Other", "map_id": 2, "conf": 1, "beh": "T", "pred": 1, "ver": "2018b"}
        sp["location"] = None           # no location anywhere: the writers fall back to their default
        sp["pps"][0]["initial_state"]["attrs"]["velocity"] = 7.0123456789012
    return sp


def mask(fmt, data):
    if fmt == "xml":
        return re.sub(rb'date="[^"]*"', b'date="MASKED"', data)
    from commonroad.scenario_definition.protobuf_format.generated_scripts import commonroad_pb2
    m = commonroad_pb2.CommonRoad()
    m.ParseFromString(data)
    m.information.date.Clear()
    return m.SerializeToString(deterministic=True)


class World:
    """live part of a state: writer objects, scenarios, temp dir"""

    def __init__(self):
        self.dir = tempfile.mkdtemp(prefix="c15_")
        self.writers = []
        self.files = []     # (path, fmt)
        self.scen = {}

    def scenario(self, name):
        if name not in self.scen:
            self.scen[name] = spec.build(scen_spec(name))
        return self.scen[name]

    def close(self):
        import shutil
        shutil.rmtree(self.dir, ignore_errors=True)


_pristine = {}


def pristine(fmt, prec, scen, method):
    key = (fmt, prec, scen, method)
    if key not in _pristine:
        from commonroad.common.file_writer import CommonRoadFileWriter, OverwriteExistingFile
        from commonroad.common.util import FileFormat
        d = tempfile.mkdtemp(prefix="c15p_")
        sc, pps = spec.build(scen_spec(scen))
        # the reference writer is the oracle's own business: the library's process-global decimal precision is put back afterwards, so that the
        # explored history (and the canonical form of its state) never depends on when a reference content happened to be computed
        _glob = _global_precision()
        saved = getattr(_glob, "decimals", None)
        try:
            w = CommonRoadFileWriter(sc, pps, sc.author, sc.affiliation, sc.source, sc.tags, sc.location, decimal_precision=prec,
                                     file_format=FileFormat.XML if fmt == "xml" else FileFormat.PROTOBUF)
            fn = os.path.join(d, "p." + fmt)
            getattr(w, method)(fn, OverwriteExistingFile.ALWAYS)
            _pristine[key] = mask(fmt, open(fn, "rb").read())
        finally:
            if _glob is not None and saved is not None:
                _glob.decimals = saved
        import shutil
        shutil.rmtree(d, ignore_errors=True)
    return _pristine[key]


def start():
    return World(), {"writers": [], "nfiles": 0}


def make_enabled(tier, max_writers):
    def enabled(model):
        ops = []
        if len(model["writers"]) < max_writers:
            for f in FORMATS:
                for p in precisions(tier):
                    for s in ("s1", "s2"):
                        ops.append(["new", f, p, s])
                # a writer constructed without naming a precision: it writes with the documented default of 4 decimals, whatever other writers exist
                ops.append(["new", f, None, "s1"])
        for i, w in enumerate(model["writers"]):
            ops.append(["write", i]); ops.append(["write_scenario", i])
            ops.append(["write_checked", i])    # write_to_file with check_validity=True: the same file as without the check
            ops.append(["write_fails", i])      # a write into a directory that does not exist: it raises, and must leave nothing behind in the writer
            if any(ff == w[0] for ff in model.get("file_fmts", [])):
                ops.append(["write_skip", i]); ops.append(["write_always", i])
            # SKIP onto an existing but EMPTY file (a reserved name): it exists, so it must be left untouched, by both entry points
            ops.append(["write_skip_empty", i, "write_to_file"]); ops.append(["write_skip_empty", i, "write_scenario_to_file"])
            # SKIP onto an existing file whose name has no suffix, while a file <name>.<format suffix> exists as well
            ops.append(["write_skip_nosuffix", i, "write_to_file"]); ops.append(["write_skip_nosuffix", i, "write_scenario_to_file"])
            # ... and the same call when only <name>.<suffix> exists: the given path is new, so it is written - and nothing else is touched
            ops.append(["write_nosuffix_beside", i, "write_to_file"]); ops.append(["write_nosuffix_beside", i, "write_scenario_to_file"])
        return ops
    return enabled


def step(world, model, op):
    from commonroad.common.file_writer import CommonRoadFileWriter, OverwriteExistingFile
    from commonroad.common.util import FileFormat
    m = {"writers": [list(w) for w in model["writers"]], "nfiles": model["nfiles"], "file_fmts": list(model.get("file_fmts", []))}
    k = op[0]
    obs = {"kind": k}

    def listing():
        return {n: hashlib.sha256(open(os.path.join(world.dir, n), "rb").read()).hexdigest() for n in sorted(os.listdir(world.dir))}
    dir_before = listing()
    try:
        if k == "new":
            sc, pps = world.scenario(op[3])
            kw_ = {} if op[2] is None else {"decimal_precision": op[2]}
            w = CommonRoadFileWriter(sc, pps, sc.author, sc.affiliation, sc.source, sc.tags, sc.location,
                                     file_format=FileFormat.XML if op[1] == "xml" else FileFormat.PROTOBUF, **kw_)
            world.writers.append(w)
            m["writers"].append([op[1], 4 if op[2] is None else op[2], op[3], 0, 0])
        else:
            i = op[1]
            fmt, prec, scen = m["writers"][i][:3]
            w = world.writers[i]
            if k == "write_fails":
                try:
                    w.write_to_file(os.path.join(world.dir, "no-such-directory", "x." + fmt), OverwriteExistingFile.ALWAYS)
                    obs["failed"] = False
                except Exception:
                    obs["failed"] = True
                obs.update(path=os.path.join(world.dir, "no-such-directory"), fmt=fmt, prec=prec, scen=scen, method="write_to_file")
            elif k in ("write", "write_scenario", "write_checked"):
                fn = os.path.join(world.dir, f"f{m['nfiles']}.{fmt}")
                method = "write_to_file" if k != "write_scenario" else "write_scenario_to_file"
                if k == "write_checked":
                    w.write_to_file(fn, OverwriteExistingFile.ALWAYS, check_validity=True)
                else:
                    getattr(w, method)(fn, OverwriteExistingFile.ALWAYS)
                world.files.append((fn, fmt))
                m["nfiles"] += 1; m["file_fmts"].append(fmt)
                m["writers"][i][3 if k != "write_scenario" else 4] += 1
                obs.update(path=fn, fmt=fmt, prec=prec, scen=scen, method=method)
            elif k in ("write_skip_nosuffix", "write_nosuffix_beside"):
                base = os.path.join(world.dir, f"bare{len(os.listdir(world.dir))}")
                for name in ((base,) if k == "write_skip_nosuffix" else ()) + (base + ".xml", base + ".pb"):
                    with open(name, "wb") as f:
                        f.write(b"existing content of " + os.path.basename(name).encode())
                fn = base
                getattr(w, op[2])(fn, OverwriteExistingFile.SKIP)
                obs.update(path=fn, fmt=fmt, prec=prec, scen=scen, method=op[2], before=hashlib.sha256(open(fn, "rb").read()).hexdigest() if os.path.exists(fn) else None)
            elif k == "write_skip_empty":
                fn = os.path.join(world.dir, f"empty{len(os.listdir(world.dir))}.{fmt}")
                open(fn, "wb").close()
                getattr(w, op[2])(fn, OverwriteExistingFile.SKIP)
                obs.update(path=fn, fmt=fmt, prec=prec, scen=scen, method=op[2], before=hashlib.sha256(b"").hexdigest())
            else:
                fn = [p for p, f in world.files if f == fmt][-1]
                before = open(fn, "rb").read()
                w.write_to_file(fn, OverwriteExistingFile.SKIP if k == "write_skip" else OverwriteExistingFile.ALWAYS)
                if k == "write_always":
                    m["writers"][i][3] += 1
                obs.update(path=fn, fmt=fmt, prec=prec, scen=scen, method="write_to_file", before=hashlib.sha256(before).hexdigest())
        obs["status"] = "ok"
    except Exception as e:
        obs["status"] = "raises:" + type(e).__name__
        obs["error"] = str(e)[:200]
    # which files of the directory appeared or changed during this operation (files the harness itself pre-created count as "before")
    after = listing()
    pre = dict(dir_before)
    if k in ("write_skip_empty", "write_skip_nosuffix", "write_nosuffix_beside"):
        pre = None      # decided below from the contents the harness wrote
    obs["dir_changed"] = sorted(n for n in after if pre is not None and pre.get(n) != after[n])
    if k == "write_skip_empty":
        obs["dir_changed"] = sorted(n for n in after if n not in dir_before and after[n] != hashlib.sha256(b"").hexdigest()) + \
            sorted(n for n in dir_before if dir_before[n] != after.get(n))
    if k in ("write_skip_nosuffix", "write_nosuffix_beside"):
        obs["dir_changed"] = sorted(n for n in after if n not in dir_before and after[n] != hashlib.sha256(b"existing content of " + n.encode()).hexdigest()) + \
            sorted(n for n in dir_before if dir_before[n] != after.get(n))
    return (obs["status"], obs), m


def _global_precision():
    """the library's process-global decimal precision object, if it (still) has one: read for state de-duplication and put back after the oracle's
    own writes; never used by an oracle"""
    try:
        from commonroad.common.writer.file_writer_interface import precision
        return precision
    except Exception:
        return None


def canon(world, model):
    g = _global_precision()
    return (json.dumps(model["writers"]), getattr(g, "decimals", None), model["nfiles"])


def relation(model_before, op):
    """what happened before this write that could leak into it (for the signature)"""
    i = op[1]
    w = model_before["writers"][i]
    tags = []
    if w[3] + w[4] > 0:
        tags.append("same-writer-wrote-before" + ("(scenario-only)" if w[4] and not w[3] else ""))
    others = [x for j, x in enumerate(model_before["writers"]) if j != i]
    if any(x[1] != w[1] for x in others):
        tags.append("other-writer-with-different-precision")
    elif others:
        tags.append("other-writer")
    return "+".join(tags) or "first-write"


def check(world, model, model2, op, obs, pre):
    status, o = obs
    out = []
    if status != "ok":
        out.append((f"C15|{op[0]}|{status}", f"{op}: {o.get('error')}"))
        return out
    if op[0] == "new":
        if o.get("dir_changed"):
            out.append((f"C15|new-writer|touches-files", f"{op}: {o['dir_changed']}"))
        return out
    fmt = o["fmt"]
    if op[0] == "write_fails":
        if o.get("dir_changed"):
            out.append((f"C15|write_to_file|{fmt}|failed-write-touched-files", f"{op}: {o['dir_changed']}"))
        return out
    # a writer touches the path it was given and nothing else; with SKIP on an existing file it touches nothing
    allowed = set() if op[0] in ("write_skip", "write_skip_empty", "write_skip_nosuffix") else {os.path.basename(o["path"])}
    other = [n for n in o.get("dir_changed", []) if n not in allowed]
    if other:
        out.append((f"C15|{o['method']}[{'SKIP' if not allowed else 'ALWAYS'}]|{fmt}|other-file-touched" + (":suffix-less-name" if "nosuffix" in op[0] else ""),
                    f"{op}: files changed or created besides the given path: {other}"))
        return out
    data = open(o["path"], "rb").read()
    if op[0] == "write_nosuffix_beside":
        if not os.path.exists(o["path"]):
            out.append((f"C15|{o['method']}|{fmt}|suffix-less-name|given-path-not-written", f"{op}: nothing was written to the given path"))
            return out
    if op[0] in ("write_skip", "write_skip_empty", "write_skip_nosuffix"):
        if hashlib.sha256(data).hexdigest() != o["before"]:
            out.append((f"C15|{o['method']}[SKIP]|{fmt}|skip-modified{':empty-file' if op[0] == 'write_skip_empty' else ''}",
                        f"{op}: existing file changed although overwrite mode is SKIP"))
        return out
    exp = pristine(fmt, o["prec"], o["scen"], o["method"])
    rel = relation(model, op)
    try:
        got = mask(fmt, data)
    except Exception as e:
        out.append((f"C15|{o['method']}|{fmt}|{rel}|unparsable-output:{type(e).__name__}", f"{op}: {e!r}"))
        return out
    if got != exp:
        out.append((f"C15|{o['method']}|{fmt}|{rel}|content-differs-from-pristine", f"{op} (writers {model['writers']}): {len(got)} bytes vs {len(exp)} bytes from the pristine history"))
        return out
    # reads back to the scenario (only once per distinct content: the content equals the pristine one)
    key = ("rb", fmt, o["prec"], o["scen"], o["method"])
    if key not in _pristine:
        _pristine[key] = True
        try:
            sc2, pps2 = roundtrip.read(fmt, o["path"])
            sc, pps = spec.build(scen_spec(o["scen"]))
            s0 = roundtrip.snapshot(sc, pps if o["method"] == "write_to_file" else None)
            s1 = roundtrip.snapshot(sc2, pps2 if o["method"] == "write_to_file" else None)
            if o["method"] != "write_to_file":
                s0["pps"], s1["pps"] = {}, {}
            for path, kind, detail in roundtrip.compare(s0, s1, fmt, o["prec"]):
                p, kk = roundtrip.classify(path, kind)
                if p == "network.signs.*.virtual":
                    continue        # C01's known finding, not a writer-state issue
                if p == "version" and fmt == "xml":
                    continue        # an XML file is always written in (and read as) the current format version
                out.append((f"C15|{o['method']}|{fmt}|readback-differs:{p}:{kk}", f"{op}: {path}: {detail}"))
                break
        except Exception as e:
            out.append((f"C15|{o['method']}|{fmt}|readback-raises:{type(e).__name__}", f"{op}: {e!r}"))
    return out


def describe(tier):
    return {"formats": FORMATS, "precisions": precisions(tier), "scenarios": ["s1", "s2"], "max_writers_x_depth": [[2, 4]] if tier == "quick" else [[3, 4], [2, 5]],
            "exhaustive": True}


def units(tier):
    # quick: up to 2 writers, histories of length 4.  thorough: two complete enumerations - up to 3 writers with histories of length 4, and up to
    # 2 writers with histories of length 5 (3 writers at length 5 is a space of > 10^8 transitions and was not affordable: stated, not capped silently)
    u = []
    for mw, depth in ([(2, 4)] if tier == "quick" else [(3, 4), (2, 5)]):
        en = make_enabled(tier, mw)
        w0, m0 = start()
        w0.close()
        for op1 in en(m0):
            m1 = {"writers": [[op1[1], 4 if op1[2] is None else op1[2], op1[3], 0, 0]], "nfiles": 0, "file_fmts": []}
            for op2 in en(m1):
                u.append({"prefix": [op1, op2], "depth": depth, "max_writers": mw})
    return u


def run_unit(unit, tier):
    res = Result()
    en = make_enabled(tier, unit.get("max_writers", 2 if tier == "quick" else 3))
    worlds = []

    def st():
        w, m = start()
        worlds.append(w)
        if len(worlds) > 4:
            worlds.pop(0).close()
        return w, m
    # the prefix itself
    w, m = st()
    ok = True
    hist = []
    for op in unit["prefix"]:
        obs, m2 = step(w, m, op)
        hist.append(op)
        res.transitions += 1; res.evals += 1
        for sig, detail in check(w, m, m2, op, obs, None):
            res.violation(sig, detail, {"history": list(hist)}); ok = False
        m = m2
    if ok:
        info = bfs.search(st, en, step, canon, check, unit["depth"] - 2, res, prefix=unit["prefix"])
        res.extra["shards_closed"] = 1 if info["closed"] else 0
    for x in worlds:
        x.close()
    return res


def replay(case):
    w, m = start()
    out = []
    for op in case["history"]:
        obs, m2 = step(w, m, op)
        out += check(w, m, m2, op, obs, None)
        m = m2
    w.close()
    return out


def canaries():
    from commonroad.common.writer import file_writer_interface as fi

    @contextlib.contextmanager
    def skip_returns_name():
        o = fi.FileWriter._handle_file_path

        def bad(self, filename, overwrite_existing_file):
            r = o(self, filename, overwrite_existing_file)
            return filename if r == "" else r
        fi.FileWriter._handle_file_path = bad
        try:
            yield
        finally:
            fi.FileWriter._handle_file_path = o
    return [("SKIP-mode-still-writes", skip_returns_name)]
