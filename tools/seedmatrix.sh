#!/bin/bash
# Re-validates every stored seeded change against the current /repo HEAD and runs the owning property's quick check on it.
# Output: /verif/seeded/RESULTS.md   (usage: tools/seedmatrix.sh [--with-suite]); works in its own worktree, /repo is only read
cd /verif
# MATRIX_SHARD=i/n runs every n-th seed (starting with the i-th) and writes RESULTS.<i>.md; tools/seedmatrix_merge.sh joins the parts
SH_I=${MATRIX_SHARD%%/*}; SH_N=${MATRIX_SHARD##*/}
OUT=/verif/seeded/RESULTS${MATRIX_SHARD:+.$SH_I}.md
HEAD=$(git -C /repo rev-parse --short HEAD)
WT=/tmp/wt/matrix${MATRIX_SHARD:+_$SH_I}
git -C /repo worktree remove --force $WT 2>/dev/null
git -C /repo worktree add -q --detach $WT HEAD
{
echo "# Seeded changes vs checks (repo HEAD $HEAD, $(date -u +%F))"
echo
echo "| seed | property | applies | demo unchanged | demo changed | pinned suite with change | quick check verdict | first new signature |"
echo "|---|---|---|---|---|---|---|---|"
} > $OUT
idx=0
for d in /verif/seeded/C*/; do
  idx=$((idx+1))
  if [ -n "${MATRIX_SHARD:-}" ] && [ $((idx % SH_N)) -ne $((SH_I % SH_N)) ]; then continue; fi
  s=$(basename $d); P=${s%%_*}
  git -C $WT checkout -q -- . ; 
  if ! git -C $WT apply --check $d/patch.diff 2>/dev/null; then echo "| $s | $P | NO (conflicts with later fix) | - | - | - | - | - |" >> $OUT; continue; fi
  (cd $WT && PYTHONPATH=$WT timeout 600 /venv/bin/python $d/demo.py >/dev/null 2>&1); r0=$?
  git -C $WT apply $d/patch.diff
  (cd $WT && PYTHONPATH=$WT timeout 600 /venv/bin/python $d/demo.py >/dev/null 2>&1); r1=$?
  suite="-"
  if [ "${1:-}" = "--with-suite" ]; then suite=$(cd $WT && PYTHONPATH=$WT /venv/bin/python -m pytest -q -p no:cacheprovider --timeout=900 tests 2>&1 | tail -1 | sed 's/ in .*//'); fi
  git -C $WT checkout -q -- . ; rm -rf $WT/tests/.pytest_cache
  out=$(tools/seedrun_wt.sh $P $d/patch.diff $WT 2>&1)
  rc=$(echo "$out" | grep -o "seedrun rc=[0-9]*" | cut -d= -f2)
  sig=$(echo "$out" | grep "signature:" | head -1 | sed 's/ *signature: //')
  verdict=$([ "$rc" = "1" ] && echo DETECTED || echo "missed (rc=$rc)")
  # a change seeded for one property may break another one first (e.g. a renderer that writes into the scenario is C18's business):
  # seeded/<id>/detected_by names the property whose check is expected to report it
  if [ "$rc" != "1" ] && [ -f $d/detected_by ]; then
    Q=$(cat $d/detected_by)
    out=$(tools/seedrun_wt.sh $Q $d/patch.diff $WT 2>&1)
    rc=$(echo "$out" | grep -o "seedrun rc=[0-9]*" | cut -d= -f2)
    sig=$(echo "$out" | grep "signature:" | head -1 | sed 's/ *signature: //')
    verdict=$([ "$rc" = "1" ] && echo "DETECTED by $Q (not by $P)" || echo "missed (rc=$rc, also by $Q)")
  fi
  [ $r1 -eq 0 ] && verdict="$verdict (seed no longer manifests: neutralised by a later fix)"
  echo "| $s | $P | yes | rc=$r0 | rc=$r1 | $suite | $verdict | \`$sig\` |" >> $OUT
done
git -C /repo worktree remove --force $WT
echo >> $OUT
echo "demo unchanged must be rc=0, demo changed must be non-zero for a valid seed." >> $OUT
cat $OUT
