"""C16 - Interval and AngleInterval behave as the closed sets they denote.  E2-grid, full product.

Interval: exact rational semantics (fractions.Fraction of the float/int ends).
AngleInterval: ends on the pi/8 (thorough: pi/16) grid plus one off-grid long interval; membership decided in
float arithmetic with a 1e-9 guard band around the interval ends modulo 2pi (the statement says
"tolerance-guarded"): inside the band the call must not raise, either answer is accepted (counted as guarded);
queries that are the *identical float* as an end are decided (must be contained).
"""
import contextlib
import itertools
import math
from fractions import Fraction as F

from mc.core import Result

PROPERTY = "C16"
RULE = ("full products: Interval ends x ends (int and float typed) x query values / query intervals / scalars / shifts / "
        "round digits; AngleInterval grid starts x lengths x query angles (float, numpy.float64, int, off-grid) / query "
        "intervals / shifts / un-normalised constructor inputs. A case is non-trivial when the expected answer is decided "
        "(not in the guard band); distinct by construction of the product")
ASSUMPTIONS = ["Interval oracle: exact rational comparison of the stored ends",
               "AngleInterval oracle: d=(theta-start) mod 2pi compared with the length, guard band 1e-9 at the ends "
               "(identical-float ends are decided); inside the band the oracle is one-sided and exact: an angle / arc that lies in the set for some "
               "whole number of turns (rational arithmetic on the float values, pi bounded to 40 digits) must be contained, anything else is accepted",
               "overlaps/intersection/*,/,round are checked for plain Interval only (the statement names them for plain "
               "intervals; for angle intervals only contains and shifting are stated)"]

TWO_PI = 2 * math.pi
A = [-3, -1.5, -1, 0, 0.5, 1, 2, 2.5, 4]
EPS = 2.0 ** -40
GUARD = 1e-9


def _typed(v):
    """the letter as float and, when integral, also as int"""
    out = [float(v)]
    if float(v).is_integer():
        out.append(int(v))
    return out


def _tn(x):
    return type(x).__name__


def describe(tier):
    g = 8 if tier == "quick" else 16
    return {"interval_end_alphabet": A, "typed": "int and float", "angle_grid": f"pi/{g}",
            "angle_start_indices": [-2 * g, 2 * g], "angle_lengths": f"m*pi/{g}, m=0..{2 * g - 1}, plus 2pi-1e-3",
            "guard_band": GUARD, "exhaustive": True}


def units(tier):
    g = 8 if tier == "quick" else 16
    u = [{"k": "interval-ctor"}, {"k": "interval-contains"}, {"k": "interval-pairs"}, {"k": "interval-arith"},
         {"k": "angle-ctor", "g": g}, {"k": "angle-shift", "g": g}]
    for cls in ("Interval", "AngleInterval"):
        for first in ("start", "end"):
            u.append({"k": "setter-history", "cls": cls, "first": first, "depth": 2 if tier == "quick" else 3})
    for s in range(-2 * g, 2 * g + 1):
        u.append({"k": "angle-contains", "g": g, "s": s})
        u.append({"k": "angle-contains-interval", "g": g, "s": s})
    return u


def _intervals():
    from commonroad.common.util import Interval
    out = []
    for a, b in itertools.combinations_with_replacement(A, 2):
        for ta in _typed(a):
            for tb in _typed(b):
                out.append((ta, tb))
    return out


def _interval_ctor(res):
    from commonroad.common.util import Interval
    for a, b in itertools.product(A, repeat=2):
        for ta in _typed(a):
            for tb in _typed(b):
                res.evals += 1; res.transitions += 1; res.nontrivial += 1
                case = {"op": "Interval", "a": ta, "b": tb, "ta": _tn(ta), "tb": _tn(tb)}
                try:
                    i = Interval(ta, tb)
                    ok = True
                except Exception as e:
                    ok = False
                    exc = e
                if a <= b and not ok:
                    res.violation(f"C16|Interval.__init__|arg:{_tn(ta)},{_tn(tb)}|raises:{type(exc).__name__}", repr(exc), case)
                elif a > b and ok:
                    res.violation("C16|Interval.__init__|bad-order-accepted", f"Interval({ta},{tb}) accepted", case)
                elif ok and (i.start != ta or i.end != tb):
                    res.violation("C16|Interval.__init__|wrong-ends", f"{i.start},{i.end}", case)
                res.outcomes["ctor-ok" if ok else "ctor-rejected"] += 1
                res.sample(case, 1)
    res.states += 1


def _interval_contains(res):
    from commonroad.common.util import Interval
    import numpy as np
    qs = set()
    for a in A:
        qs.update([a, a + EPS, a - EPS])
    for a, b in itertools.combinations(A, 2):
        qs.add((a + b) / 2)
    qs = sorted(qs)
    for a, b in _intervals():
        i = Interval(a, b)
        res.states += 1
        for q in qs:
            variants = [float(q), np.float64(q)] + ([int(q)] if float(q).is_integer() else [])
            for x in variants:
                exp = F(a) <= F(float(x)) <= F(b)
                case = {"op": "contains", "a": a, "b": b, "x": float(x), "tx": _tn(x), "ta": _tn(a), "tb": _tn(b)}
                for meth in ("contains", "__contains__"):
                    res.evals += 1; res.transitions += 1
                    try:
                        got = getattr(i, meth)(x)
                    except Exception as e:
                        res.violation(f"C16|Interval.{meth}|arg:{_tn(x)}|raises:{type(e).__name__}", repr(e), case)
                        continue
                    if bool(got) != exp:
                        res.violation(f"C16|Interval.{meth}|arg:{_tn(x)}|{'wrong-true' if got else 'wrong-false'}",
                                      f"[{a},{b}] contains {x!r}: got {got}", case)
                    res.outcomes[f"contains={bool(got)}"] += 1
                res.nontrivial += 1
        res.sample({"op": "contains", "a": a, "b": b}, 1)


def _interval_pairs(res):
    from commonroad.common.util import Interval
    ivs = _intervals()
    for (a, b) in ivs:
        i = Interval(a, b)
        res.states += 1
        for (c, d) in ivs:
            j = Interval(c, d)
            case = {"op": "pair", "a": a, "b": b, "c": c, "d": d, "types": [_tn(a), _tn(b), _tn(c), _tn(d)]}
            res.nontrivial += 1
            exp_cont = F(a) <= F(c) and F(d) <= F(b)
            exp_ov = max(F(a), F(c)) <= min(F(b), F(d))
            for meth, exp in (("contains", exp_cont), ("__contains__", exp_cont), ("overlaps", exp_ov)):
                res.evals += 1; res.transitions += 1
                try:
                    got = getattr(i, meth)(j)
                except Exception as e:
                    res.violation(f"C16|Interval.{meth}|arg:Interval|raises:{type(e).__name__}", repr(e), case)
                    continue
                if bool(got) != exp:
                    res.violation(f"C16|Interval.{meth}|arg:Interval|{'wrong-true' if got else 'wrong-false'}",
                                  f"[{a},{b}].{meth}([{c},{d}]) = {got}", case)
                res.outcomes[f"{meth}={bool(got)}"] += 1
            res.evals += 1; res.transitions += 1
            try:
                x = i.intersection(j)
            except Exception as e:
                res.violation(f"C16|Interval.intersection|arg:Interval|raises:{type(e).__name__}", repr(e), case)
                continue
            if exp_ov:
                lo, hi = max(F(a), F(c)), min(F(b), F(d))
                if x is None or F(x.start) != lo or F(x.end) != hi or x.start > x.end:
                    res.violation("C16|Interval.intersection|arg:Interval|wrong-image",
                                  f"[{a},{b}] ∩ [{c},{d}] = {None if x is None else (x.start, x.end)}", case)
            elif x is not None:
                res.violation("C16|Interval.intersection|arg:Interval|nonempty-for-disjoint",
                              f"[{a},{b}] ∩ [{c},{d}] = {(x.start, x.end)}", case)
    res.sample({"op": "pair", "n_intervals": len(ivs)}, 1)


def _close(x, y):
    return abs(float(x) - float(y)) <= 1e-12 * (1 + abs(float(y)))


def _interval_arith(res):
    from commonroad.common.util import Interval
    scal = [-2, -1, -0.5, 0.5, 1, 3, -3, 7, 10, 0.3]       # 3, 7, 10, 0.3: the reciprocal is not a binary fraction
    for (a, b) in _intervals():
        res.states += 1
        for s0 in scal + [0]:
            for s in _typed(s0):
                def _aug(i, s, op):
                    # the augmented form (i *= s ...): whatever object the name is bound to afterwards is the image
                    import operator
                    return getattr(operator, op)(i, s)
                ops = [("__mul__", lambda i, s=s: i * s, (F(a) * F(s), F(b) * F(s))), ("__imul__", lambda i, s=s: _aug(i, s, "imul"), (F(a) * F(s), F(b) * F(s)))]
                if s0 != 0:
                    ops.append(("__truediv__", lambda i, s=s: i / s, (F(a) / F(s), F(b) / F(s))))
                    ops.append(("__itruediv__", lambda i, s=s: _aug(i, s, "itruediv"), (F(a) / F(s), F(b) / F(s))))
                for name, fn, (p, q) in ops:
                    lo, hi = min(p, q), max(p, q)
                    case = {"op": name, "a": a, "b": b, "s": s, "ts": _tn(s), "ta": _tn(a), "tb": _tn(b)}
                    res.evals += 1; res.transitions += 1; res.nontrivial += 1
                    try:
                        r = fn(Interval(a, b))
                    except Exception as e:
                        sign = "neg" if s0 < 0 else ("zero" if s0 == 0 else "pos")
                        res.violation(f"C16|Interval.{name}|arg:{_tn(s)}|scalar:{sign}|raises:{type(e).__name__}", repr(e), case)
                        continue
                    if not (_close(r.start, lo) and _close(r.end, hi)) or r.start > r.end:
                        sign = "neg" if s0 < 0 else ("zero" if s0 == 0 else "pos")
                        res.violation(f"C16|Interval.{name}|arg:{_tn(s)}|scalar:{sign}|wrong-image",
                                      f"[{a},{b}] {name} {s} = [{r.start},{r.end}] expected [{float(lo)},{float(hi)}]", case)
                    else:
                        # "the image set": the image of every point of the interval, computed the way a caller would (x * s, x / s), lies in the result
                        for x in (a, b, (a + b) / 2):
                            img = x * s if name in ("__mul__", "__imul__") else x / s
                            if not (r.start <= img <= r.end):
                                sign = "neg" if s0 < 0 else "pos"
                                res.violation(f"C16|Interval.{name}|arg:{_tn(s)}|scalar:{sign}|image-of-a-point-outside-the-result",
                                              f"{x} {name} {s} = {img!r} is not in [{a},{b}] {name} {s} = [{r.start!r},{r.end!r}]", case)
                                break
                    res.outcomes[name] += 1
        for s0 in A:
            for s in _typed(s0):
                import operator as _op
                for name, fn, (lo, hi) in (("__add__", lambda i, s=s: i + s, (F(a) + F(s), F(b) + F(s))),
                                           ("__sub__", lambda i, s=s: i - s, (F(a) - F(s), F(b) - F(s))),
                                           ("__iadd__", lambda i, s=s: _op.iadd(i, s), (F(a) + F(s), F(b) + F(s))),
                                           ("__isub__", lambda i, s=s: _op.isub(i, s), (F(a) - F(s), F(b) - F(s)))):
                    case = {"op": name, "a": a, "b": b, "s": s, "ts": _tn(s)}
                    res.evals += 1; res.transitions += 1; res.nontrivial += 1
                    try:
                        r = fn(Interval(a, b))
                    except Exception as e:
                        res.violation(f"C16|Interval.{name}|arg:{_tn(s)}|raises:{type(e).__name__}", repr(e), case)
                        continue
                    if not (_close(r.start, lo) and _close(r.end, hi)) or r.start > r.end:
                        res.violation(f"C16|Interval.{name}|arg:{_tn(s)}|wrong-image", f"[{r.start},{r.end}]", case)
        for n in (None, 0, 1):
            case = {"op": "round", "a": a, "b": b, "n": n}
            res.evals += 1; res.transitions += 1; res.nontrivial += 1
            try:
                r = round(Interval(a, b), n)
            except Exception as e:
                res.violation(f"C16|Interval.__round__|n:{n}|raises:{type(e).__name__}", repr(e), case)
                continue
            if r.start != round(a, n) or r.end != round(b, n) or r.start > r.end:
                res.violation(f"C16|Interval.__round__|n:{n}|wrong-image", f"[{r.start},{r.end}]", case)
    # rounding with a number of digits, on bounds that lie (in decimal notation) half-way between two representable results: the image of a
    # bound is what round(bound, n) gives
    HALF = [0.125, 1.15, 2.675, -0.285, 2.5, 0.5, 1.005, -1.5, 1234.5678]
    for a, b in itertools.combinations_with_replacement(sorted(HALF), 2):
        for n in (None, 0, 1, 2, 3, -1):
            case = {"op": "round", "a": a, "b": b, "n": n}
            res.evals += 1; res.transitions += 1; res.nontrivial += 1
            try:
                r = round(Interval(a, b), n)
            except Exception as e:
                res.violation(f"C16|Interval.__round__|n:{n}|raises:{type(e).__name__}", repr(e), case)
                continue
            if r.start != round(a, n) or r.end != round(b, n) or r.start > r.end:
                res.violation(f"C16|Interval.__round__|n:{'None' if n is None else ('neg' if n < 0 else ('0' if n == 0 else '>=1'))}|wrong-image",
                              f"round([{a},{b}], {n}) = [{r.start!r},{r.end!r}], the bounds round to {round(a, n)!r}, {round(b, n)!r}", case)
    res.sample({"op": "arith", "scalars": scal + [0], "shifts": A}, 1)


# ------------------------------------------------------------------ angle intervals

def _grid_intervals(g, s):
    """(start, end, label) for start index s: lengths m*pi/g and the off-grid long one, end <= 2pi"""
    st = s * math.pi / g
    out = []
    for m in range(0, 2 * g):
        en = (s + m) * math.pi / g
        if en <= TWO_PI:
            out.append((st, en, m))
    if st + TWO_PI - 1e-3 <= TWO_PI:
        out.append((st, st + TWO_PI - 1e-3, "long"))
    return out


# rational bounds of pi (40 digits): membership of a float angle in a float interval modulo 2*pi is decided EXACTLY with them unless the
# angle is within 1e-38 of an interval end seen a whole number of turns away
_PI_LO = F(31415926535897932384626433832795028841971, 10 ** 40)
_PI_HI = F(31415926535897932384626433832795028841972, 10 ** 40)


def _certainly_inside(st, en, th):
    """True if th + 2*pi*k lies in [st, en] for some integer k in exact arithmetic (the floats taken as the rationals they are)"""
    fs, fe, ft = F(st), F(en), F(th)
    k0 = int((ft - fs) / (2 * _PI_LO))
    for k in range(k0 - 2, k0 + 3):
        lo, hi = (ft - 2 * k * _PI_HI, ft - 2 * k * _PI_LO) if k >= 0 else (ft - 2 * k * _PI_LO, ft - 2 * k * _PI_HI)
        if fs <= lo and hi <= fe:
            return True
    return False


def _expect_angle(st, en, th):
    """True / False / None(guarded)"""
    L = en - st
    if th == st or th == en:
        return True
    d = math.fmod(th - st, TWO_PI)
    if d < 0:
        d += TWO_PI
    if min(abs(d), abs(d - TWO_PI), abs(d - L)) < GUARD:
        # inside the guard band the tolerance may accept angles that are slightly outside, but an angle that IS in the set (exactly) is contained
        return True if _certainly_inside(st, en, th) else None
    return d < L


def _lenclass(st, en):
    L = en - st
    if L == 0:
        return "len=0"
    if L < math.pi - 1e-6:
        return "len<pi"
    if L <= math.pi + 1e-6:
        return "len=pi"
    return "len>pi"


def _queries(g):
    import numpy as np
    qs = []
    for k in range(-2 * g, 2 * g + 1):
        v = k * math.pi / g
        qs.append((v, "float"))
        qs.append((np.float64(v), "float64"))
        qs.append((v + 0.1, "float"))
    for k in range(-6, 7):
        qs.append((k, "int"))
    qs.append((np.float32(0.5), "float32"))
    return qs


def _angle_contains(res, g, s):
    from commonroad.common.util import AngleInterval
    for st, en, m in _grid_intervals(g, s):
        res.states += 1
        try:
            ai = AngleInterval(st, en)
        except Exception as e:
            res.violation(f"C16|AngleInterval.__init__|{_lenclass(st, en)}|raises:{type(e).__name__}", repr(e),
                          {"op": "actor", "st": st, "en": en})
            continue
        # the same interval obtained by copying (shallow, deep, pickled, nested in a list) instead of constructing: it is the same set
        import copy as _copy, pickle as _pickle
        routes = [("constructed", ai)]
        try:
            routes += [("copy", _copy.copy(ai)), ("deepcopy", _copy.deepcopy(ai)), ("pickle", _pickle.loads(_pickle.dumps(ai))), ("deepcopy-in-list", _copy.deepcopy([ai])[0])]
        except Exception as e:
            res.violation(f"C16|AngleInterval.copy|raises:{type(e).__name__}", repr(e), {"op": "actor", "st": st, "en": en})
        for rname, robj in routes[1:]:
            if type(robj) is not type(ai) or robj.start != ai.start or robj.end != ai.end:
                res.violation(f"C16|AngleInterval|route:{rname}|not-the-same-interval", f"[{st},{en}] -> {type(robj).__name__}[{robj.start},{robj.end}]", {"op": "actor", "st": st, "en": en})
        # + the interval's own ends (and the floats next to them on the inside) seen one and two whole turns away, as a float sum produces them
        turns = [(e_ + k_ * TWO_PI, "float") for e_ in (st, en, math.nextafter(st, en), math.nextafter(en, st)) for k_ in (-2, -1, 1, 2)]
        for th, tname in _queries(g) + turns:
            exp = _expect_angle(st, en, float(th))
            case = {"op": "acontains", "st": st, "en": en, "th": float(th), "tth": tname}
            for rname, robj in routes[1:]:
                if exp is not None and tname == "float":
                    res.evals += 1; res.transitions += 1
                    try:
                        if bool(robj.contains(th)) != exp:
                            res.violation(f"C16|AngleInterval.contains|route:{rname}|{'wrong-true' if not exp else 'wrong-false'}", f"copy of [{st},{en}] contains({th!r}) != {exp}", case)
                    except Exception as e:
                        res.violation(f"C16|AngleInterval.contains|route:{rname}|raises:{type(e).__name__}", repr(e), case)
            for meth in ("contains", "__contains__"):
                res.evals += 1; res.transitions += 1
                try:
                    got = getattr(ai, meth)(th)
                except Exception as e:
                    res.violation(f"C16|AngleInterval.{meth}|arg:{tname}|{_lenclass(st, en)}|raises:{type(e).__name__}",
                                  f"[{st},{en}].{meth}({th!r}): {e!r}", case)
                    continue
                if exp is None:
                    continue
                if bool(got) != exp:
                    res.violation(f"C16|AngleInterval.{meth}|arg:{tname}|{_lenclass(st, en)}|"
                                  f"{'wrong-true' if got else 'wrong-false'}", f"[{st},{en}].{meth}({th!r}) = {got}", case)
                res.outcomes[f"acontains={bool(got)}"] += 1
            if exp is None:
                res.guarded += 1
            else:
                res.nontrivial += 1
        res.sample({"op": "acontains", "st": st, "en": en}, 1)


def _expect_sub(st, en, ost, oen):
    L, M = en - st, oen - ost
    if ost == st and oen == en:
        return True
    d = math.fmod(ost - st, TWO_PI)
    if d < 0:
        d += TWO_PI
    if abs(d - TWO_PI) < GUARD:
        d = 0.0
    if abs(d) < GUARD or abs(d + M - L) < GUARD or abs(d - L) < GUARD:
        # guard band: an arc that IS inside (exactly, for some whole number of turns) is contained; the tolerance may accept slightly more
        fs, fe, fos, foe = F(st), F(en), F(ost), F(oen)
        k0 = int((fos - fs) / (2 * _PI_LO))
        for k in range(k0 - 2, k0 + 3):
            lo = fos - 2 * k * (_PI_HI if k >= 0 else _PI_LO)
            hi = foe - 2 * k * (_PI_LO if k >= 0 else _PI_HI)
            if fs <= lo and hi <= fe:
                return True
        return None
    return d + M < L


def _angle_contains_interval(res, g, s):
    from commonroad.common.util import AngleInterval
    step = 1 if g == 8 else 2
    for st, en, m in _grid_intervals(g, s):
        res.states += 1
        try:
            ai = AngleInterval(st, en)
        except Exception:
            continue  # reported by angle-contains
        for os_ in range(-2 * g, 2 * g + 1, step):
            for ost, oen, om in _grid_intervals(g, os_):
                if om != "long" and om % step:
                    continue
                try:
                    oi = AngleInterval(ost, oen)
                except Exception:
                    continue
                exp = _expect_sub(st, en, ost, oen)
                case = {"op": "acontains_iv", "st": st, "en": en, "ost": ost, "oen": oen}
                res.evals += 1; res.transitions += 1
                try:
                    got = ai.contains(oi)
                except Exception as e:
                    res.violation(f"C16|AngleInterval.contains|arg:AngleInterval|{_lenclass(st, en)}|raises:{type(e).__name__}",
                                  f"[{st},{en}].contains([{ost},{oen}]): {e!r}", case)
                    continue
                if exp is None:
                    res.guarded += 1
                    continue
                res.nontrivial += 1
                if bool(got) != exp:
                    res.violation(f"C16|AngleInterval.contains|arg:AngleInterval|{_lenclass(st, en)}|"
                                  f"{'wrong-true' if got else 'wrong-false'}",
                                  f"[{st},{en}].contains([{ost},{oen}]) = {got}", case)
                res.outcomes[f"asub={bool(got)}"] += 1
    res.sample({"op": "acontains_iv", "s": s}, 1)


def _same_angle_set(r, st, en):
    """r (AngleInterval) denotes {st..en} modulo 2pi, admissible range, ordered"""
    if not (-TWO_PI - 1e-12 <= r.start <= r.end <= TWO_PI + 1e-12):
        return False
    if abs((r.end - r.start) - (en - st)) > 1e-9:
        return False
    d = math.fmod(r.start - st, TWO_PI)
    return min(abs(d), abs(abs(d) - TWO_PI)) < 1e-9


def _angle_shift(res, g):
    from commonroad.common.util import AngleInterval
    for s in range(-2 * g, 2 * g + 1):
        for st, en, m in _grid_intervals(g, s):
            if m != "long" and m % 3 and m not in (0, 2 * g - 1):
                continue
            res.states += 1
            try:
                ai = AngleInterval(st, en)
            except Exception:
                continue
            for k in range(-2 * g, 2 * g + 1):
                sh = k * math.pi / g
                for name, sgn in (("__add__", 1), ("__sub__", -1), ("__iadd__", 1), ("__isub__", -1)):
                    nst, nen = st + sgn * sh, en + sgn * sh
                    # shifts "keeping the result admissible": representable inside [-2pi, 2pi] after a 2pi-multiple move
                    if not any(-TWO_PI <= nst + j * TWO_PI and nen + j * TWO_PI <= TWO_PI for j in (-2, -1, 0, 1, 2)):
                        continue
                    case = {"op": "ashift", "st": st, "en": en, "shift": sh, "name": name}
                    res.evals += 1; res.transitions += 1; res.nontrivial += 1
                    try:
                        if name.startswith("__i"):
                            import operator as _op
                            r = (_op.iadd if sgn == 1 else _op.isub)(AngleInterval(st, en), sh)      # x += sh on an interval of its own
                        else:
                            r = ai + sh if sgn == 1 else ai - sh
                    except Exception as e:
                        res.violation(f"C16|AngleInterval.{name}|{_lenclass(st, en)}|raises:{type(e).__name__}",
                                      f"[{st},{en}] {name} {sh}: {e!r}", case)
                        continue
                    if not _same_angle_set(r, nst, nen):
                        res.violation(f"C16|AngleInterval.{name}|{_lenclass(st, en)}|wrong-image",
                                      f"[{st},{en}] {name} {sh} = [{r.start},{r.end}]", case)
                    res.outcomes["ashift"] += 1
    res.sample({"op": "ashift", "grid": g}, 1)


def _angle_ctor(res, g):
    from commonroad.common.util import AngleInterval
    for s in range(-3 * g, 3 * g + 1):
        st = s * math.pi / g
        for m in list(range(0, 2 * g)) + ["long", "2pi", "bad"]:
            if m == "long":
                en = st + TWO_PI - 1e-3
            elif m == "2pi":
                en = st + TWO_PI + 1e-3
            elif m == "bad":
                en = st - 0.5
            else:
                en = (s + m) * math.pi / g
            # admissible iff some 2pi-shift puts both ends into [-2pi, 2pi]
            adm = any(-TWO_PI <= st + j * TWO_PI and en + j * TWO_PI <= TWO_PI for j in (-2, -1, 0, 1, 2))
            case = {"op": "actor", "st": st, "en": en}
            res.evals += 1; res.transitions += 1
            try:
                r = AngleInterval(st, en)
                ok = True
            except Exception as e:
                ok, exc = False, e
            if m in ("2pi", "bad"):
                res.nontrivial += 1
                if ok:
                    res.violation(f"C16|AngleInterval.__init__|{'bad-order' if m == 'bad' else 'length>=2pi'}-accepted",
                                  f"AngleInterval({st},{en}) -> [{r.start},{r.end}]", case)
                continue
            if not adm:
                res.guarded += 1   # cannot be represented inside [-2pi,2pi]; either outcome accepted
                continue
            res.nontrivial += 1
            if not ok:
                res.violation(f"C16|AngleInterval.__init__|{_lenclass(st, en)}|raises:{type(exc).__name__}",
                              f"AngleInterval({st},{en}): {exc!r}", case)
            elif not _same_angle_set(r, st, en):
                res.violation(f"C16|AngleInterval.__init__|{_lenclass(st, en)}|wrong-normalisation",
                              f"AngleInterval({st},{en}) -> [{r.start},{r.end}]", case)
            res.outcomes["actor-ok" if ok else "actor-rejected"] += 1
    res.states += 1
    res.sample({"op": "actor", "grid": g}, 1)


def _setter_history(res, cls, first, depth):
    """E1-style: every sequence of <= depth assignments to .start/.end (first one fixed by the unit), with the full
    query set evaluated after construction and after every assignment (so that anything memoised by a query is
    populated before the next assignment).  Oracle: the interval now denotes [start, end]."""
    from commonroad.common.util import AngleInterval, Interval
    if cls == "Interval":
        ends = [-1.5, 0, 1, 2.5]
        mk = Interval
        queries = [-2.0, -1.5, -0.75, 0.0, 0.5, 1.0, 1.75, 2.5, 3.0]
        exp = lambda a, b, x: (F(a) <= F(x) <= F(b))
    else:
        ends = [k * math.pi / 4 for k in (-6, -3, -1, 0, 2, 5)]
        mk = AngleInterval
        queries = [k * math.pi / 8 + 0.05 for k in range(-16, 17)]
        exp = lambda a, b, x: _expect_angle(a, b, x)
    pairs = [(a, b) for a in ends for b in ends if a <= b and (cls == "Interval" or b - a < TWO_PI)]
    seqs = []
    for d in range(1, depth + 1):
        for rest in itertools.product([(w, v) for w in ("start", "end") for v in ends], repeat=d - 1):
            for v0 in ends:
                seqs.append([(first, v0)] + list(rest))
    for a, b in pairs:
        for seq in seqs:
            cur = [a, b]
            valid = True
            try:
                iv = mk(a, b)
            except Exception:
                break
            hist = []
            for step, (which, v) in enumerate([(None, None)] + seq):
                if which is not None:
                    new = [v, cur[1]] if which == "start" else [cur[0], v]
                    if new[0] > new[1] or (cls != "Interval" and new[1] - new[0] >= TWO_PI):
                        valid = False
                        break
                    hist.append([which, v])
                    res.transitions += 1
                    try:
                        setattr(iv, which, v)
                    except Exception as e:
                        res.violation(f"C16|{cls}.{which}=|raises:{type(e).__name__}", f"[{cur}] {which}={v}: {e!r}",
                                      {"op": "setter-history", "cls": cls, "a": a, "b": b, "seq": hist})
                        valid = False
                        break
                    cur = new
                for x in queries:
                    e_ = exp(cur[0], cur[1], x)
                    res.evals += 1; res.transitions += 1
                    try:
                        got = iv.contains(x)
                    except Exception as e:
                        res.violation(f"C16|{cls}.contains|after-setter|raises:{type(e).__name__}", repr(e),
                                      {"op": "setter-history", "cls": cls, "a": a, "b": b, "seq": hist})
                        continue
                    if e_ is None:
                        res.guarded += 1
                        continue
                    if bool(got) != e_:
                        last = hist[-1][0] if hist else "ctor"
                        res.violation(f"C16|{cls}.contains|stale-after-assigning:{last}|{'wrong-true' if got else 'wrong-false'}",
                                      f"{cls}({a},{b}) after {hist}: contains({x}) = {got}, interval is now {cur}",
                                      {"op": "setter-history", "cls": cls, "a": a, "b": b, "seq": hist})
            if valid:
                res.states += 1
                res.nontrivial += 1
                res.outcomes["setter-histories-completed"] += 1
    res.sample({"op": "setter-history", "cls": cls, "first": first, "n_sequences": len(seqs), "n_start_intervals": len(pairs)}, 1)


def run_unit(unit, tier):
    res = Result()
    k = unit["k"]
    if k == "setter-history":
        _setter_history(res, unit["cls"], unit["first"], unit["depth"])
        return res
    if k == "interval-ctor":
        _interval_ctor(res)
    elif k == "interval-contains":
        _interval_contains(res)
    elif k == "interval-pairs":
        _interval_pairs(res)
    elif k == "interval-arith":
        _interval_arith(res)
    elif k == "angle-ctor":
        _angle_ctor(res, unit["g"])
    elif k == "angle-shift":
        _angle_shift(res, unit["g"])
    elif k == "angle-contains":
        _angle_contains(res, unit["g"], unit["s"])
    elif k == "angle-contains-interval":
        _angle_contains_interval(res, unit["g"], unit["s"])
    return res


def replay(case):
    """Re-executes the single recorded call (and its oracle)."""
    import numpy as np
    from commonroad.common.util import AngleInterval, Interval
    res = Result()
    op = case["op"]
    T = {"int": int, "float": float, "float64": np.float64, "float32": np.float32}
    if op == "acontains":
        st, en, th = case["st"], case["en"], T[case["tth"]](case["th"])
        exp = _expect_angle(st, en, float(th))
        for meth in ("contains", "__contains__"):
            try:
                got = getattr(AngleInterval(st, en), meth)(th)
            except Exception as e:
                res.violation(f"C16|AngleInterval.{meth}|arg:{case['tth']}|{_lenclass(st, en)}|raises:{type(e).__name__}", repr(e), case)
                continue
            if exp is not None and bool(got) != exp:
                res.violation(f"C16|AngleInterval.{meth}|arg:{case['tth']}|{_lenclass(st, en)}|"
                              f"{'wrong-true' if got else 'wrong-false'}", str(got), case)
    else:
        # fall back: re-run the whole (small) unit family that contains the case
        fam = {"Interval": "interval-ctor", "contains": "interval-contains", "pair": "interval-pairs",
               "__mul__": "interval-arith", "__truediv__": "interval-arith", "__add__": "interval-arith",
               "__sub__": "interval-arith", "round": "interval-arith"}.get(op)
        g = 8
        for gg in (8, 16):
            if "st" in case and abs(case["st"] / (math.pi / gg) - round(case["st"] / (math.pi / gg))) < 1e-9:
                g = gg
                break
        if op == "setter-history":
            res = run_unit({"k": "setter-history", "cls": case["cls"], "first": case["seq"][0][0] if case["seq"] else "end",
                            "depth": max(2, len(case["seq"]))}, "quick")
        elif fam:
            res = run_unit({"k": fam}, "quick")
        elif op == "acontains_iv":
            res = run_unit({"k": "angle-contains-interval", "g": g, "s": round(case["st"] / (math.pi / g))}, "quick")
        elif op == "ashift":
            res = run_unit({"k": "angle-shift", "g": g}, "quick")
        elif op == "actor":
            res = run_unit({"k": "angle-ctor", "g": g}, "quick")
    return [(s, d) for s, d, _ in res.violations]


def canaries():
    from commonroad.common import util

    @contextlib.contextmanager
    def overlaps_strict():
        o = util.Interval.overlaps
        util.Interval.overlaps = lambda self, i: self.end > i.start and i.end > self.start
        try:
            yield
        finally:
            util.Interval.overlaps = o

    @contextlib.contextmanager
    def div_no_swap():
        o = util.Interval.__truediv__
        util.Interval.__truediv__ = lambda self, x: type(self)(min(self._start / x, self._end / x), self._end / x) if x > 0 else type(self)(self._start / abs(x), self._end / abs(x))
        try:
            yield
        finally:
            util.Interval.__truediv__ = o

    @contextlib.contextmanager
    def contains_open_end():
        o = util.Interval.contains

        def bad(self, other):
            if type(other) is util.Interval:
                return self.start <= other.start and other.end <= self.end
            return self.start <= other < self.end or (self.start == self.end == other)
        util.Interval.contains = bad
        try:
            yield
        finally:
            util.Interval.contains = o
    return [("overlaps-strict", overlaps_strict), ("div-no-sign-swap", div_no_swap), ("contains-open-end", contains_open_end)]
