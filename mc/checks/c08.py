"""C08 - goal-region membership is decided correctly.  E2-grid.

The membership test is a conjunction over independently checked attributes and a disjunction over goal states, so the
space is enumerated as full products per attribute (orientation interval x orientation value x argument type x state
class; position shape x grid point; velocity interval x value; time interval x step), then all satisfied/violated
combinations for every subset of constrained attributes, then all ordered pairs of a goal-state core x a state core,
point-mass states on 16 headings x 3 speeds, and goal_reached over all trajectories of length <= 3 of a state core.
Oracle: independent evaluation of the statement (exact rational geometry, guard band 1e-9 for angles / rotated shapes).
"""
import contextlib
import itertools
import math
from fractions import Fraction as F

from mc.core import Result
from mc import geom
from mc.checks.c16 import _expect_angle, TWO_PI

PROPERTY = "C08"
RULE = ("per-attribute full products + all satisfied/violated combinations per constraint subset + all ordered goal-state pairs "
        "x state core + point-mass grid + all trajectories of length<=3; a case is non-trivial when its expected answer is "
        "decided (outside the guard band); distinct by construction")
ASSUMPTIONS = ["states lacking an attribute the goal constrains are not generated (ValueError by design)",
               "queries within 1e-9 of an angle-interval end modulo 2pi or of the boundary of a rotated/circular region are guarded "
               "(must not raise, either answer accepted); identical-float interval ends and axis-aligned / polygon boundaries "
               "are decided",
               "goal_reached may return the index of any state that reaches the goal"]

GUARD = 1e-9
KIN = ["KSState", "STState", "MBState", "ExtendedPMState", "InitialState"]


# --------------------------------------------------------------------------- builders

def mk_shape(spec):
    import numpy as np
    from commonroad.geometry.shape import Rectangle, Circle, Polygon, ShapeGroup
    k = spec[0]
    if k == "rect":
        return Rectangle(spec[1], spec[2], np.array([spec[3], spec[4]], dtype=float), spec[5])
    if k == "circle":
        return Circle(spec[1], np.array([spec[2], spec[3]], dtype=float))
    if k == "poly":
        return Polygon(np.array(spec[1], dtype=float))
    if k == "group":
        return ShapeGroup([mk_shape(s) for s in spec[1]])
    if k == "lanelets":
        # goal given by lanelets: the reader builds a ShapeGroup of the lanelet polygons
        from commonroad.scenario.lanelet import Lanelet
        shapes = []
        for (x0, y0, x1, w) in spec[1]:
            ll = Lanelet(np.array([[x0, y0 + w], [x1, y0 + w]], dtype=float), np.array([[x0, y0 + w / 2], [x1, y0 + w / 2]], dtype=float),
                         np.array([[x0, y0], [x1, y0]], dtype=float), 1)
            shapes.append(ll.polygon)
        return ShapeGroup(shapes)
    raise KeyError(k)


def shape_contains(spec, p):
    """True / False / None (guarded)"""
    k = spec[0]
    if k == "rect":
        l, w, cx, cy, o = spec[1:]
        if o == 0:
            P = geom.fr(p)
            return abs(P[0] - F(cx)) <= F(l) / 2 and abs(P[1] - F(cy)) <= F(w) / 2
        dx, dy = p[0] - cx, p[1] - cy
        lx = dx * math.cos(o) + dy * math.sin(o)
        ly = -dx * math.sin(o) + dy * math.cos(o)
        mx, my = abs(lx) - l / 2, abs(ly) - w / 2
        if abs(mx) < GUARD and my < GUARD or abs(my) < GUARD and mx < GUARD:
            return None
        return mx < 0 and my < 0
    if k == "circle":
        r, cx, cy = spec[1:]
        P = geom.fr(p)
        d2 = (P[0] - F(cx)) ** 2 + (P[1] - F(cy)) ** 2
        if d2 == F(r) ** 2:
            return True if math.sqrt(float(d2)) == float(r) else None
        if abs(math.sqrt(float(d2)) - r) < GUARD:
            return None
        return d2 < F(r) ** 2
    if k == "poly":
        return geom.point_in_ring_closed(geom.fr(p), geom.ring(spec[1]))
    if k == "group":
        rs = [shape_contains(s, p) for s in spec[1]]
        if any(r is True for r in rs):
            return True
        return None if any(r is None for r in rs) else False
    if k == "lanelets":
        rs = []
        for (x0, y0, x1, w) in spec[1]:
            rs.append(geom.point_in_ring_closed(geom.fr(p), geom.ring([(x0, y0), (x1, y0), (x1, y0 + w), (x0, y0 + w)])))
        return any(rs)
    raise KeyError(k)


def mk_goal_state(g):
    """g: dict(time=(a,b), pos=shape spec|None, ori=(a,b)|None, vel=(a,b)|None)"""
    from commonroad.common.util import Interval, AngleInterval
    from commonroad.scenario.state import CustomState
    kw = {"time_step": Interval(g["time"][0], g["time"][1])}
    if g.get("pos") is not None:
        kw["position"] = mk_shape(g["pos"])
    if g.get("ori") is not None:
        kw["orientation"] = AngleInterval(g["ori"][0], g["ori"][1])
    if g.get("vel") is not None:
        kw["velocity"] = Interval(g["vel"][0], g["vel"][1])
    return CustomState(**kw)


def mk_goal(gs, lanelets=None):
    from commonroad.planning.goal import GoalRegion
    return GoalRegion([mk_goal_state(g) for g in gs], lanelets)


def cast(v, t):
    import numpy as np
    return {"float": float, "int": int, "float64": np.float64, "float32": np.float32, "int64": np.int64, "int32": np.int32, "float16": np.float16}[t](v)


def mk_state(s):
    """s: dict(cls, t, pos=(x,y), ori, vel, [vy], types={attr: 'int'|'float'|'float64'})"""
    import numpy as np
    from commonroad.scenario import state as st
    ty = s.get("types", {})
    kw = {"time_step": cast(s["t"], ty["t"]) if "t" in ty else s["t"], "position": np.array(s["pos"], dtype=float)}
    cls = getattr(st, s["cls"]) if s["cls"] != "CustomPM" else None
    if s["cls"] in ("PMState",):
        kw["velocity"] = cast(s["vel"], ty.get("vel", "float")); kw["velocity_y"] = cast(s["vy"], ty.get("vy", "float"))
        return cls(**kw)
    if s["cls"] == "CustomPM":
        return st.CustomState(time_step=s["t"], position=kw["position"], velocity=cast(s["vel"], "float"), velocity_y=cast(s["vy"], "float"))
    kw["orientation"] = cast(s["ori"], ty.get("ori", "float"))
    kw["velocity"] = cast(s["vel"], ty.get("vel", "float"))
    import dataclasses
    for f in dataclasses.fields(cls):
        if f.name not in kw:
            kw[f.name] = 0.0
    return cls(**kw)


# --------------------------------------------------------------------------- oracle

def expect_goal_state(g, s):
    """True/False/None for one goal state"""
    res = []
    a, b = g["time"]
    res.append(a <= s["t"] <= b)
    if g.get("pos") is not None:
        res.append(shape_contains(g["pos"], s["pos"]))
    if s["cls"] in ("PMState", "CustomPM"):
        speed = math.hypot(s["vel"], s["vy"])
        heading = math.atan2(s["vy"], s["vel"])
        if g.get("ori") is not None:
            res.append(_expect_angle(g["ori"][0], g["ori"][1], heading))
        if g.get("vel") is not None:
            lo, hi = g["vel"]
            res.append(None if min(abs(speed - lo), abs(speed - hi)) < GUARD and not (speed in (lo, hi)) else (lo <= speed <= hi))
    else:
        if g.get("ori") is not None:
            res.append(_expect_angle(g["ori"][0], g["ori"][1], float(s["ori"])))
        if g.get("vel") is not None:
            res.append(F(g["vel"][0]) <= F(float(s["vel"])) <= F(g["vel"][1]))
    if any(r is False for r in res):
        return False
    return None if any(r is None for r in res) else True


def expect_region(gs, s):
    rs = [expect_goal_state(g, s) for g in gs]
    if any(r is True for r in rs):
        return True
    return None if any(r is None for r in rs) else False


def check_case_moved(g, s, a, res, tag):
    """the goal region is moved with translate_rotate (as a scenario / planning problem is), the state is the moved state: reaching is invariant"""
    import numpy as np
    case = {"k": "is_reached-after-move", "goals": [g], "state": s, "angle": a, "tag": tag}
    exp = expect_region([g], s)
    res.evals += 1; res.transitions += 1
    try:
        goal = mk_goal([g])
        goal.translate_rotate(np.array([2.0, -1.0]), a)
        o2 = float(s["ori"]) + a
        while o2 > TWO_PI:
            o2 -= TWO_PI
        while o2 < -TWO_PI:
            o2 += TWO_PI
        c_, s_ = math.cos(a), math.sin(a)
        x, y = s["pos"][0] + 2.0, s["pos"][1] - 1.0
        st = mk_state(dict(s, ori=o2, pos=(c_ * x - s_ * y, s_ * x + c_ * y), types={}))
        got = goal.is_reached(st)
    except Exception as e:
        res.violation(f"C08|{s['cls']}|orientation|{lenclass(g.get('ori'))}|after-translate_rotate|raises:{type(e).__name__}", f"goal {g} state {s} a={a}: {e!r}", case)
        return
    if exp is None:
        res.guarded += 1
        return
    res.nontrivial += 1
    if bool(got) != exp:
        res.violation(f"C08|{s['cls']}|orientation|{lenclass(g.get('ori'))}|after-translate_rotate|{'wrong-accept' if got else 'wrong-reject'}",
                      f"goal {g} moved by a={a}, state orientation {s['ori']} + a: is_reached={got}, expected {exp}", case)


def lenclass(iv):
    if iv is None:
        return "-"
    L = iv[1] - iv[0]
    return "len<=pi" if L <= math.pi else "len>pi"


def check_case(gs, s, res, tag, lanelets=None):
    """one (goal region, state) pair"""
    case = {"k": "is_reached", "goals": gs, "state": s, "lanelets": lanelets, "tag": tag}
    exp = expect_region(gs, s)
    res.evals += 1; res.transitions += 1
    ty = s.get("types", {})
    try:
        goal = mk_goal(gs, lanelets)
        st = mk_state(s)
        got = goal.is_reached(st)
    except Exception as e:
        attr = tag.split(":")[0]
        res.violation(f"C08|{s['cls']}|{attr}|{lenclass(gs[0].get('ori'))}|arg:{ty.get('ori', ty.get('vel', 'float'))}|raises:{type(e).__name__}",
                      f"goal {gs} state {s}: {e!r}", case)
        return
    if exp is None:
        res.guarded += 1
        return
    res.nontrivial += 1
    res.outcomes[f"reached={bool(got)}"] += 1
    if bool(got) != exp:
        attr = tag.split(":")[0]
        res.violation(f"C08|{s['cls']}|{attr}|{lenclass(gs[0].get('ori'))}|arg:{ty.get('ori', ty.get('vel', 'float'))}|"
                      f"{'wrong-accept' if got else 'wrong-reject'}", f"goal {gs} state {s}: is_reached={got}, expected {exp}", case)


# --------------------------------------------------------------------------- goals given by lanelets, obtained by reading a file

# rectangles (x0, y0, x1, width); the goal refers to a subset of them, in the listed order
FILE_LANELETS = {1: (-2.0, 0.0, 2.0, 2.0), 2: (2.0, 0.0, 5.0, 2.0), 3: (-3.0, -3.0, 0.0, 1.5), 4: (0.0, 2.0, 3.0, 1.0)}
FILE_GOALS = [{1: [1, 2]}, {0: [3], 1: [2, 4]}, {1: [4, 1, 3]}, {0: [2]}]     # goal-state index -> lanelet ids (two goal states each)


def file_goal_case(gi, fmt, res):
    """planning problem whose goal positions are lanelet references, written and read back: the goal region of the problem that was
    read must accept exactly the points of the referenced lanelets (goal state 0 additionally demands t in [2,5], goal state 1 t in [6,9])"""
    import os, tempfile
    from mc import spec, roundtrip
    ref = FILE_GOALS[gi]
    sp = spec.minimal()
    sp["lanelets"] = [{"id": i, "left": [[x0, y0 + w], [x1, y0 + w]], "right": [[x0, y0], [x1, y0]]} for i, (x0, y0, x1, w) in FILE_LANELETS.items()]
    gss = []
    for k, tiv in ((0, (2, 5)), (1, (6, 9))):
        if k in ref:
            pos = ["group", [["poly", [[FILE_LANELETS[i][0], FILE_LANELETS[i][1]], [FILE_LANELETS[i][2], FILE_LANELETS[i][1]],
                                      [FILE_LANELETS[i][2], FILE_LANELETS[i][1] + FILE_LANELETS[i][3]], [FILE_LANELETS[i][0], FILE_LANELETS[i][1] + FILE_LANELETS[i][3]]]]
                             for i in ref[k]]]
            gss.append(spec.goal_state(t=tiv, position=pos))
        else:
            gss.append(spec.goal_state(t=tiv, velocity=["iv", 0.0, 100.0]))
    sp["pps"] = [spec.pp(100, goal_states=gss, lanelets={str(k): v for k, v in ref.items()}, x=0.0, y=1.0)]
    case = {"k": "file-goal", "goal": gi, "fmt": fmt}
    d = tempfile.mkdtemp(prefix="c08_")
    try:
        sc, pps = spec.build(sp)
        fn = os.path.join(d, "g." + fmt)
        roundtrip.write(sc, pps, fmt, fn, precision=4)
        _, pps2 = roundtrip.read(fmt, fn)
        goal = list(pps2.planning_problem_dict.values())[0].goal
    except Exception as e:
        res.violation(f"C08|file-goal:{fmt}|build-write-read|raises:{type(e).__name__}", repr(e), case)
        return
    finally:
        import shutil
        shutil.rmtree(d, ignore_errors=True)
    for p in grid_points():
        for t in (3, 7):
            k = 0 if t == 3 else 1
            res.evals += 1; res.transitions += 1
            if k in ref:
                exp = shape_contains(("lanelets", [FILE_LANELETS[i] for i in ref[k]]), p)
            else:
                exp = True
            try:
                got = goal.is_reached(mk_state(dict(BASE_S, pos=p, t=t)))
            except Exception as e:
                res.violation(f"C08|file-goal:{fmt}|is_reached|raises:{type(e).__name__}", f"{case} p={p} t={t}: {e!r}", dict(case, point=list(p), t=t))
                return
            res.nontrivial += 1
            res.outcomes[f"file-goal:reached={bool(got)}"] += 1
            if bool(got) != exp:
                res.violation(f"C08|file-goal:{fmt}|position:lanelets|{'wrong-accept' if got else 'wrong-reject'}",
                              f"{case} goal lanelets {ref}: point {p} at t={t}: is_reached={got}, expected {exp}", dict(case, point=list(p), t=t))


FILE_SHAPES = [("rect", 4.0, 2.0, 1.0, 1.0, math.pi / 4), ("rect", 6.0, 1.0, 0.5, 1.0, -1.2), ("rect", 3.0, 1.5, -2.0, 2.0, 0), ("circle", 2.5, 1.0, 0.5),
               ("poly", [[-1.0, -1.0], [3.0, -1.0], [3.0, 1.0], [1.0, 1.0], [1.0, 3.0], [-1.0, 3.0]]),
               ("group", [("rect", 2.0, 2.0, -1.0, 0.0, 0.3), ("rect", 1.0, 3.0, 2.5, 2.5, 1.0)])]


def file_shape_goal_case(si, fmt, res):
    """a goal position given as a shape, written and read back: the goal region that was READ must accept exactly the points of the shape"""
    import os, tempfile
    from mc import spec, roundtrip
    sh = FILE_SHAPES[si]
    listify = lambda x: [listify(y) for y in x] if isinstance(x, (list, tuple)) else x
    sp = spec.minimal()
    sp["pps"] = [spec.pp(100, goal_states=[spec.goal_state(t=(2, 5), position=listify(sh))], x=0.0, y=1.0)]
    case = {"k": "file-shape-goal", "shape": si, "fmt": fmt}
    d = tempfile.mkdtemp(prefix="c08_")
    try:
        sc, pps = spec.build(sp)
        fn = os.path.join(d, "g." + fmt)
        roundtrip.write(sc, pps, fmt, fn, precision=6)
        _, pps2 = roundtrip.read(fmt, fn)
        goal = list(pps2.planning_problem_dict.values())[0].goal
    except Exception as e:
        res.violation(f"C08|file-goal:{fmt}|build-write-read|raises:{type(e).__name__}", repr(e), case)
        return
    finally:
        import shutil
        shutil.rmtree(d, ignore_errors=True)
    for p in grid_points() + probe_points(sh):
        res.evals += 1; res.transitions += 1
        exp = shape_contains(sh, p)
        try:
            got = goal.is_reached(mk_state(dict(BASE_S, pos=p, t=3)))
        except Exception as e:
            res.violation(f"C08|file-goal:{fmt}|is_reached|raises:{type(e).__name__}", f"{case} p={p}: {e!r}", dict(case, point=list(p)))
            return
        if exp is None:
            res.guarded += 1
            continue
        res.nontrivial += 1
        res.outcomes[f"file-goal:reached={bool(got)}"] += 1
        if bool(got) != exp:
            res.violation(f"C08|file-goal:{fmt}|position:{sh[0]}|{'wrong-accept' if got else 'wrong-reject'}",
                          f"{case} goal shape {sh}: point {p}: is_reached={got}, expected {exp}", dict(case, point=list(p)))
            return


# --------------------------------------------------------------------------- spaces

ORI_STARTS = [-TWO_PI, -math.pi - 0.3, -math.pi / 2, -0.2, 0.0, 1.0, math.pi - 0.2]
ORI_LENS = [0.0, 0.5, math.pi - 0.1, math.pi, math.pi + 0.1, 4.0, 6.0, TWO_PI - 1e-3]
SHAPES = [("rect", 4.0, 2.0, 1.0, 1.0, 0), ("rect", 4.0, 2.0, 1.0, 1.0, math.pi / 4), ("rect", 3.0, 1.0, 0.0, 0.5, 0.3),
          ("circle", 2.5, 1.0, 0.5), ("circle", 5.0, 0.0, 0.0),
          ("poly", [[-1.0, -1.0], [3.0, -1.0], [3.0, 1.0], [1.0, 1.0], [1.0, 3.0], [-1.0, 3.0]]),
          ("poly", [[0.0, 0.0], [4.0, 2.0], [0.0, 2.0]]),
          ("group", [("rect", 2.0, 2.0, -1.0, 0.0, 0), ("circle", 1.0, 2.5, 2.5)]),
          ("lanelets", [(-2.0, 0.0, 2.0, 2.0), (2.0, 0.0, 5.0, 2.0)]), ("lanelets", [(0.0, -1.0, 3.0, 1.5)]),
          ("rect", 4.0, 4.0, 1.0, 0.5, math.pi / 4), ("rect", 6.0, 1.0, 0.5, 1.0, -1.2), ("rect", 2.0, 5.0, 0.0, 0.0, math.pi / 2),
          # long rectangles at very small non-zero orientations (and just short of a full turn)
          ("rect", 120.0, 3.5, 10.0, 1.0, 4e-5), ("rect", 120.0, 3.5, 10.0, 1.0, -2e-5), ("rect", 80.0, 2.0, -5.0, 0.5, 2 * math.pi - 3e-5),
          # open rings whose last vertex is the only extreme point in some direction ("house" with the apex last; a kite pointing left)
          ("poly", [[-1.0, -1.0], [3.0, -1.0], [3.0, 1.0], [-1.0, 1.0], [1.0, 4.0]]), ("poly", [[2.0, 0.0], [3.0, 1.5], [2.0, 3.0], [-3.0, 1.5]]),
          ("group", [("poly", [[0.0, 0.0], [2.0, 0.0], [2.0, 2.0], [0.0, 2.0], [1.0, 3.5]]), ("rect", 1.0, 1.0, 4.0, 0.0, 0)])]
VELS = [(0.0, 5.0), (-2.0, 2.0), (3.0, 3.0), (0, 5), (-2, 2.5)]
TIMES = [(2, 5), (0, 0), (3, 3)]
BASE_S = {"cls": "KSState", "t": 3, "pos": (1.0, 1.0), "ori": 0.1, "vel": 2.5}
BASE_G = {"time": (2, 5), "pos": None, "ori": None, "vel": None}


def ori_intervals():
    out = []
    for st in ORI_STARTS:
        for L in ORI_LENS:
            if st + L <= TWO_PI:
                out.append((st, st + L))
    return out


def ori_queries(tier):
    import numpy as np
    g = 8 if tier == "quick" else 16
    q = []
    for k in range(-2 * g, 2 * g + 1):
        v = k * math.pi / g
        q.append((v, "float")); q.append((v, "float64"))
    for k in range(-6, 7):
        q.append((k, "int"))
    q += [(0.37, "float"), (-2.9, "float"), (5.9, "float64")]
    return q


def grid_points():
    pts = []
    for i in range(-8, 13):
        for j in range(-6, 9):
            pts.append((i / 2.0, j / 2.0))
    return pts


def probe_points(sh):
    """points next to the corners / rim of the shape (just inside and just outside): shortcuts that bound a shape by a box or a radius are
    wrong first near the corners"""
    k = sh[0]
    out = []
    if k == "rect":
        l, w, cx, cy, o = sh[1:]
        c, s_ = math.cos(o), math.sin(o)
        for sx, sy in ((1, 1), (1, -1), (-1, 1), (-1, -1), (1, 0), (0, 1), (-1, 0), (0, -1)):
            for f in (0.97, 1.03):
                dx, dy = f * sx * l / 2, f * sy * w / 2
                out.append((cx + c * dx - s_ * dy, cy + s_ * dx + c * dy))
        # 1 mm inside / outside the long edges, near their ends (where a slightly wrong orientation shows first)
        for ex in (-0.49, 0.0, 0.49):
            for sy in (1, -1):
                for d in (-1e-3, 1e-3):
                    dx, dy = ex * l, sy * (w / 2 + d)
                    out.append((cx + c * dx - s_ * dy, cy + s_ * dx + c * dy))
    elif k == "circle":
        r, cx, cy = sh[1:]
        for i in range(8):
            # (also a millionth / ten-millionth of the radius inside and outside: a rim test with a relative tolerance is wrong there)
            for f in (0.97, 1.03, 1 - 1e-6, 1 + 1e-6, 1 - 1e-7, 1 + 1e-7):
                out.append((cx + f * r * math.cos(i * math.pi / 4 + 0.1), cy + f * r * math.sin(i * math.pi / 4 + 0.1)))
    elif k == "poly":
        mx = sum(p[0] for p in sh[1]) / len(sh[1]); my = sum(p[1] for p in sh[1]) / len(sh[1])
        for px, py in sh[1]:
            for f in (0.97, 1.03):
                out.append((mx + f * (px - mx), my + f * (py - my)))
    elif k == "group":
        for m in sh[1]:
            out += probe_points(m)
    elif k == "lanelets":
        for (x0, y0, x1, w) in sh[1]:
            out += probe_points(("rect", x1 - x0, w, (x0 + x1) / 2, y0 + w / 2, 0))
    return out


def describe(tier):
    return {"orientation_intervals": len(ori_intervals()), "orientation_queries": len(ori_queries(tier)), "shapes": len(SHAPES),
            "grid_points": len(grid_points()), "velocity_intervals": VELS, "time_intervals": TIMES, "state_classes": KIN + ["PMState", "CustomPM"],
            "guard_band": GUARD, "exhaustive": True}


def units(tier):
    u = []
    for i in range(len(ori_intervals())):
        u.append({"k": "ori", "i": i})
    for i in range(len(SHAPES)):
        u.append({"k": "pos", "i": i})
    u += [{"k": "vel"}, {"k": "time"}, {"k": "conj"}, {"k": "disj"}, {"k": "pm"}, {"k": "reached"}]
    for gi in range(len(FILE_GOALS)):
        for fmt in ("xml", "pb"):
            u.append({"k": "file-goal", "goal": gi, "fmt": fmt})
    for si in range(len(FILE_SHAPES)):
        for fmt in ("xml", "pb"):
            u.append({"k": "file-shape-goal", "shape": si, "fmt": fmt})
    return u


def core_goal_states():
    return [dict(BASE_G), dict(BASE_G, time=(0, 0)), dict(BASE_G, pos=SHAPES[0]), dict(BASE_G, pos=SHAPES[3]),
            dict(BASE_G, ori=(-0.2, 0.3)), dict(BASE_G, ori=(1.0, 5.0)), dict(BASE_G, vel=(0.0, 5.0)), dict(BASE_G, vel=(3, 3)),
            dict(BASE_G, pos=SHAPES[5], ori=(-math.pi / 2, math.pi / 2)), dict(BASE_G, pos=SHAPES[8], vel=(-2.0, 2.0)),
            dict(BASE_G, time=(3, 3), ori=(math.pi - 0.2, math.pi + 0.9), vel=(0.0, 5.0)),
            dict(BASE_G, pos=SHAPES[1], ori=(-TWO_PI, -TWO_PI + 0.5), vel=(-2.0, 2.0))]


def core_states():
    out = []
    for t in (1, 3):
        for pos in ((1.0, 1.0), (4.0, 1.0), (-1.5, 2.5)):
            for ori in (0.1, 2.0, math.pi):
                for vel in (1.0, 3.0):
                    out.append({"cls": "KSState", "t": t, "pos": pos, "ori": ori, "vel": vel})
    # point-mass states: the harmonisation (vx, vy -> speed, heading) depends on the goal state, so they must also be
    # checked against regions whose goal states constrain different attribute sets
    for t in (1, 3):
        for pos in ((1.0, 1.0), (4.0, 1.0)):
            for vx, vy in ((3.0, 4.0), (-3.0, 4.0), (1.0, 0.0), (0.0, -7.5), (-2.0, -0.2)):
                out.append({"cls": "PMState", "t": t, "pos": pos, "vel": vx, "vy": vy})
    return out


def run_unit(unit, tier):
    res = Result()
    k = unit["k"]
    if k == "ori":
        iv = ori_intervals()[unit["i"]]
        for others in ("none", "pos-sat", "time-violated"):
            g = dict(BASE_G, ori=iv)
            s0 = dict(BASE_S)
            if others == "pos-sat":
                g["pos"] = SHAPES[0]
            if others == "time-violated":
                g["time"] = (0, 0)
            classes = KIN if others == "none" else ["KSState"]
            for cls in classes:
                for v, t in ori_queries(tier if cls == "KSState" else "quick"):
                    if cls != "KSState" and t == "float64":
                        continue
                    s = dict(s0, cls=cls, ori=v, types={"ori": t})
                    check_case([g], s, res, "orientation:" + others)
                    if others == "none" and cls == "KSState" and t == "float" and iv[1] - iv[0] < TWO_PI - 0.5:
                        for a in (0.1, 3.0, -2.0):
                            if -TWO_PI <= iv[0] + a - TWO_PI or iv[1] + a + TWO_PI <= TWO_PI or (-TWO_PI <= iv[0] + a and iv[1] + a <= TWO_PI):
                                check_case_moved(g, s, a, res, "orientation:after-move")
        res.states += 1
        res.sample({"k": "ori", "interval": iv}, 1)
    elif k == "pos":
        sh = SHAPES[unit["i"]]
        lan = {0: [1, 2]} if sh[0] == "lanelets" else None
        for p in grid_points() + probe_points(sh):
            for cls in (KIN if unit["i"] in (0, 5) else ["KSState"]):
                check_case([dict(BASE_G, pos=sh)], dict(BASE_S, cls=cls, pos=p), res, "position:" + sh[0], lan)
        res.states += 1
        res.sample({"k": "pos", "shape": sh}, 1)
    elif k == "file-shape-goal":
        file_shape_goal_case(unit["shape"], unit["fmt"], res)
        res.states += 1
        res.sample(dict(unit, goal_shape=FILE_SHAPES[unit["shape"]]), 1)
    elif k == "file-goal":
        file_goal_case(unit["goal"], unit["fmt"], res)
        res.states += 1
        res.sample(dict(unit, lanelets=FILE_GOALS[unit["goal"]]), 1)
    elif k == "vel":
        for iv in VELS:
            for v in (-3, -2, -2.0, 0, 0.0, 2.5, 3, 3.0, 5, 5.0, 5.1, 5.000000001, -2.0000001):
                # the same number in every scalar representation a caller may hold it in (values taken from numpy arrays of any dtype included)
                reps = ("int", "float", "int64", "int32", "float32", "float64") if float(v).is_integer() else (("float", "float64", "float32", "float16") if v == 2.5 else ("float", "float64"))
                for t in reps:
                    for cls in KIN:
                        check_case([dict(BASE_G, vel=iv)], dict(BASE_S, cls=cls, vel=v, types={"vel": t}), res, "velocity")
            res.states += 1
        res.sample({"k": "vel", "intervals": VELS}, 1)
    elif k == "time":
        for iv in TIMES:
            for t in range(-1, 8):
                for cls in KIN:
                    check_case([dict(BASE_G, time=iv)], dict(BASE_S, cls=cls, t=t), res, "time_step")
                for tt in ("int64", "int32", "float", "float32"):
                    check_case([dict(BASE_G, time=iv)], dict(BASE_S, cls="KSState", t=t, types={"t": tt}), res, "time_step")
            res.states += 1
        res.sample({"k": "time", "intervals": TIMES}, 1)
    elif k == "conj":
        sat = {"pos": (1.0, 1.0), "ori": 0.1, "vel": 2.5}
        unsat = {"pos": (9.0, 9.0), "ori": 2.0, "vel": 7.0}
        full = {"pos": SHAPES[0], "ori": (-0.2, 0.3), "vel": (0.0, 5.0)}
        for r in range(0, 4):
            for S in itertools.combinations(["pos", "ori", "vel"], r):
                g = dict(BASE_G)
                for a in S:
                    g[a] = full[a]
                for flags in itertools.product([True, False], repeat=len(S) + 1):
                    s = dict(BASE_S, t=3 if flags[0] else 9)
                    for a, ok in zip(S, flags[1:]):
                        s[a] = sat[a] if ok else unsat[a]
                    for cls in KIN:
                        check_case([g], dict(s, cls=cls), res, "conjunction:" + "+".join(S))
                res.states += 1
        # an orientation interval and a velocity interval with the SAME bounds, and a state whose orientation and velocity are the SAME number:
        # the orientation is decided modulo 2pi, the velocity is not
        for lo, hi in ((0.1, 1.0), (-0.5, 0.5), (2.0, 4.0)):
            for v in (0.5, 0.5 - TWO_PI, 0.5 + TWO_PI, 3.0, 3.0 - TWO_PI, -0.25, TWO_PI - 0.25):
                g = dict(BASE_G, ori=(lo, hi), vel=(lo, hi))
                for order in (("ori", "vel"), ("vel", "ori")):
                    for cls in ("KSState", "STState"):
                        check_case([g], dict(BASE_S, cls=cls, ori=v, vel=v), res, "conjunction:ori+vel-same-bounds-same-value")
                        check_case([dict(BASE_G, vel=(lo, hi))], dict(BASE_S, cls=cls, ori=0.0, vel=v), res, "conjunction:vel-after-equal-ori-interval")
        res.sample({"k": "conj"}, 1)
    elif k == "disj":
        core = core_goal_states()
        for g1, g2 in itertools.product(core, repeat=2):
            for s in core_states():
                check_case([g1, g2], s, res, "disjunction")
            res.states += 1
        for g1 in core:
            for s in core_states():
                check_case([g1], s, res, "single")
        res.sample({"k": "disj", "n_core_goal_states": len(core), "n_core_states": len(core_states())}, 1)
    elif k == "pm":
        goals = [dict(BASE_G, vel=(0.0, 5.0)), dict(BASE_G, vel=(3.0, 3.0)), dict(BASE_G, ori=(1.4, 1.7)), dict(BASE_G, ori=(-0.2, 0.3)),
                 dict(BASE_G, ori=(math.pi - 0.2, math.pi + 0.9)), dict(BASE_G, ori=(-TWO_PI, -TWO_PI + 4.0)),
                 dict(BASE_G, ori=(-2.0, -1.0), vel=(0.0, 5.0)), dict(BASE_G, pos=SHAPES[0], ori=(0.5, 1.0), vel=(4.9, 5.1)),
                 dict(BASE_G, pos=SHAPES[0]), dict(BASE_G)]
        for g in goals:
            for d in range(16):
                for sp in (1.0, 5.0, 7.5):
                    a = d * math.pi / 8
                    vx, vy = sp * math.cos(a), sp * math.sin(a)
                    if d % 4 == 0:   # exact axis cases
                        vx, vy = [(sp, 0.0), (0.0, sp), (-sp, 0.0), (0.0, -sp)][d // 4]
                    for cls in ("PMState", "CustomPM"):
                        check_case([g], {"cls": cls, "t": 3, "pos": (1.0, 1.0), "vel": vx, "vy": vy}, res, "point-mass")
            for vx, vy in ((3.0, 4.0), (-3.0, 4.0), (3, 4), (0.0, 0.0)):
                check_case([g], {"cls": "PMState", "t": 3, "pos": (1.0, 1.0), "vel": vx, "vy": vy,
                                 "types": {"vel": "int" if isinstance(vx, int) else "float", "vy": "int" if isinstance(vy, int) else "float"}},
                           res, "point-mass")
            res.states += 1
        res.sample({"k": "pm", "n_goals": len(goals)}, 1)
    elif k == "reached":
        _reached(res)
    return res


def _reached(res):
    from commonroad.planning.planning_problem import PlanningProblem
    from commonroad.scenario.trajectory import Trajectory
    import numpy as np
    from commonroad.scenario.state import InitialState
    goals = [[dict(BASE_G, time=(2, 3), pos=SHAPES[0])], [dict(BASE_G, time=(1, 1), vel=(2.9, 3.1))], [dict(BASE_G, time=(5, 9))],
             [dict(BASE_G, time=(2, 2), ori=(1.9, 2.1)), dict(BASE_G, time=(3, 4), pos=SHAPES[3])]]
    pool = [{"pos": (1.0, 1.0), "ori": 0.1, "vel": 1.0}, {"pos": (9.0, 9.0), "ori": 0.1, "vel": 3.0}, {"pos": (1.0, 1.0), "ori": 2.0, "vel": 3.0},
            {"pos": (9.0, 1.0), "ori": 2.0, "vel": 1.0}]
    init = InitialState(time_step=0, position=np.array([0.0, 0.0]), orientation=0.0, velocity=0.0, acceleration=0.0, yaw_rate=0.0, slip_angle=0.0)
    for gs in goals:
        for t0 in (0, 1, 2, 4):
            for n in (1, 2, 3):
                for combo in itertools.product(range(len(pool)), repeat=n):
                    states = [dict(pool[c], cls="KSState", t=t0 + i) for i, c in enumerate(combo)]
                    case = {"k": "goal_reached", "goals": gs, "t0": t0, "states": states}
                    exp = [expect_region(gs, s) for s in states]
                    res.evals += 1; res.transitions += 1
                    try:
                        pp = PlanningProblem(1, init, mk_goal(gs))
                        ok, idx = pp.goal_reached(Trajectory(t0, [mk_state(s) for s in states]))
                    except Exception as e:
                        res.violation(f"C08|goal_reached|raises:{type(e).__name__}", repr(e), case)
                        continue
                    if any(e is None for e in exp):
                        res.guarded += 1
                        continue
                    res.nontrivial += 1
                    if bool(ok) != any(exp):
                        res.violation(f"C08|goal_reached|{'wrong-success' if ok else 'wrong-failure'}|t0:{'0' if t0 == 0 else '>0'}",
                                      f"{case}: got {(ok, idx)}, per-state {exp}", case)
                    elif ok and not (0 <= idx < len(states) and exp[idx]):
                        res.violation("C08|goal_reached|index-does-not-reach", f"{case}: got index {idx}, per-state {exp}", case)
                    elif not ok and idx != -1:
                        res.violation("C08|goal_reached|index-not--1-on-failure", f"{idx}", case)
                    res.outcomes[f"goal_reached={bool(ok)}"] += 1
        res.states += 1
    res.sample({"k": "goal_reached", "n_goals": len(goals), "pool": pool}, 1)


def replay(case):
    res = Result()
    if case["k"] == "is_reached":
        gs = [dict(g, time=tuple(g["time"]), pos=_detuple(g.get("pos")), ori=None if g.get("ori") is None else tuple(g["ori"]),
                   vel=None if g.get("vel") is None else tuple(g["vel"])) for g in case["goals"]]
        s = dict(case["state"], pos=tuple(case["state"]["pos"]))
        lan = case.get("lanelets")
        if lan:
            lan = {int(k): v for k, v in lan.items()}
        check_case(gs, s, res, case["tag"], lan)
    elif case["k"] == "file-goal":
        file_goal_case(case["goal"], case["fmt"], res)
    elif case["k"] == "file-shape-goal":
        file_shape_goal_case(case["shape"], case["fmt"], res)
    else:
        _reached(res)
    return [(s, d) for s, d, _ in res.violations]


def _detuple(sp):
    if sp is None:
        return None
    if sp[0] in ("group",):
        return (sp[0], [tuple(_detuple(x)) for x in sp[1]])
    if sp[0] == "lanelets":
        return (sp[0], [tuple(x) for x in sp[1]])
    return tuple(sp)


def canaries():
    from commonroad.planning import goal as g
    import numpy as np

    @contextlib.contextmanager
    def all_instead_of_any():
        o = g.np.any
        orig = g.GoalRegion.is_reached

        def bad(self, state):
            rs = [g.GoalRegion([gs]).is_reached.__wrapped__(g.GoalRegion([gs]), state) if False else orig(g.GoalRegion([gs]), state) for gs in self.state_list]
            return bool(np.all(rs))
        g.GoalRegion.is_reached = bad
        try:
            yield
        finally:
            g.GoalRegion.is_reached = orig

    @contextlib.contextmanager
    def velocity_vs_time():
        orig = g.GoalRegion.is_reached

        def bad(self, state):
            r = orig(self, state)
            # velocity compared with the goal's *time* interval for goal states that constrain velocity
            for gs in self.state_list:
                if gs.has_value("velocity") and hasattr(state, "velocity") and not hasattr(state, "velocity_y"):
                    return bool(r and gs.time_step.contains(state.velocity))
            return r
        g.GoalRegion.is_reached = bad
        try:
            yield
        finally:
            g.GoalRegion.is_reached = orig
    return [("all-instead-of-any", all_instead_of_any), ("velocity-checked-against-time-interval", velocity_vs_time)]
