#!/bin/bash
# Runs the in-process canaries of every check (python -m mc.run <ID> --selftest); exit 0 iff every canary is detected.
cd /verif
rc=0
for i in $(seq -w 1 20); do
  out=$(/venv/bin/python -m mc.run C$i --selftest 2>&1 | grep -E "^canary|no canaries"); r=${PIPESTATUS[0]}
  echo "== C$i"; echo "$out"
  echo "$out" | grep -qE "MISSED|harness error|could not be applied" && rc=1
done
exit $rc
