#!/bin/bash
# usage: tools/round_seed.sh <round> <PROP> <k>  -- confirm the delivered change /tmp/seedout<round>/<PROP>/patch<k>.diff in the
# scratch worktree /tmp/wt/r<round>_<PROP> (tools/confirm_seed.sh), store it as seeded/<PROP>_r<round>_<k>, then run the owning
# check against the same worktree with the change applied (tools/seedrun_wt.sh); /repo is never touched.
set -u
R=$1; P=$2; K=$3; WT=/tmp/wt/r${R}_$P
SEED_WT=$WT SEED_SRC=/tmp/seedout$R SEED_TAG=r${R}_ /verif/tools/confirm_seed.sh $P $K || exit 1
D=/verif/seeded/${P}_r${R}_$K
[ -d $D ] || exit 1
/verif/tools/seedrun_wt.sh $P $D/patch.diff $WT quick | tee $D/check_output.txt
