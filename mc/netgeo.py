"""Lanelet alphabet on a half-integer grid + exact geometric truth for lookups (shared by C06, C07, C10, C11)."""
import math
from fractions import Fraction as F

from mc import geom

# id -> (right polyline, left polyline); all coordinates k/2 (exactly representable)
LANELETS = {
    1: ([(0, 0), (4, 0), (8, 0)], [(0, 2), (4, 2), (8, 2)]),                 # A straight
    2: ([(0, 4), (4, 4), (8, 6)], [(0, 6), (4, 6), (8, 8)]),                 # B kinked
    3: ([(0, -6), (8, -6)], [(0, -2), (8, -2)]),                             # C wide
    4: ([(10, 0), (14, 0)], [(10, 0.5), (14, 0.5)]),                         # D narrow
    5: ([(2, 1), (6, 1), (10, 1)], [(2, 3), (6, 3), (10, 3)]),               # E overlapping A and F
    6: ([(0, 2), (8, 2)], [(0, 4), (8, 4)]),                                 # F shares a boundary with A (and touches B)
    7: ([(100, 100), (104, 100)], [(100, 102), (104, 102)]),                 # G far away
    8: ([(10, 2), (12, 4), (14, 6)], [(9, 3), (11, 5), (13, 7)]),            # H diagonal
    9: ([(0, 0), (4, 0), (8, 0)], [(0, 2), (4, 2), (8, 2)]),                 # I exactly the geometry of A (a second lanelet overlaid on the same area)
    10: ([(10, -7), (15, -7), (15, -2), (10, -2)], [(10, -6), (14, -6), (14, -3), (10, -3)]),   # J U-turn, 1 wide: its area centroid (12.96, -4.5) lies in the hollow
}


def ring_of(lid, table=None):
    r, l = (table or LANELETS)[lid]
    return geom.ring(list(r) + list(l)[::-1])


def lanelet_spec(lid, table=None, **kw):
    r, l = (table or LANELETS)[lid]
    d = {"id": lid, "left": [list(map(float, p)) for p in l], "right": [list(map(float, p)) for p in r], "types": ["URBAN"]}
    d.update(kw)
    return d


def grid_points(step=0.5, x=(-1.0, 15.0), y=(-7.0, 9.0)):
    pts = []
    nx = int(round((x[1] - x[0]) / step)) + 1
    ny = int(round((y[1] - y[0]) / step)) + 1
    for i in range(nx):
        for j in range(ny):
            pts.append((x[0] + i * step, y[0] + j * step))
    pts += [(101.0, 101.0), (100.0, 100.0), (1000.0, 1000.0), (-500.0, 3.0)]
    return pts


def lanelets_at(p, ids, table=None):
    P = geom.fr(p)
    return sorted(i for i in ids if geom.point_in_ring_closed(P, ring_of(i, table)))


# ------------------------------------------------------------------ query shapes

def rect_ring(l, w, cx, cy, o):
    c, s = math.cos(o), math.sin(o)
    if o == 0:
        c, s = 1.0, 0.0
    return [(cx + c * dx - s * dy, cy + s * dx + c * dy) for dx, dy in ((l / 2, w / 2), (-l / 2, w / 2), (-l / 2, -w / 2), (l / 2, -w / 2))]


def shape_vs_ring(sp, R):
    """does the closed shape intersect the closed polygon ring R?  True / False / None (guarded)"""
    k = sp[0]
    if k == "poly":
        return geom.rings_intersect(geom.ring(sp[1]), R)
    if k == "rect":
        l, w, cx, cy, o = sp[1:]
        if o == 0:
            return geom.rings_intersect(geom.ring(rect_ring(l, w, cx, cy, 0)), R)
        a = geom.rings_intersect(geom.ring(rect_ring(l * (1 - 1e-7), w * (1 - 1e-7), cx, cy, o)), R)
        b = geom.rings_intersect(geom.ring(rect_ring(l * (1 + 1e-7), w * (1 + 1e-7), cx, cy, o)), R)
        return a if a == b else None
    if k == "circle":
        r, cx, cy = sp[1:]
        d2 = geom.dist2_point_ring(geom.fr((cx, cy)), R)
        d = math.sqrt(float(d2))
        if abs(d - r) <= 0.01 * r + 1e-9:
            return None          # shapely approximates the disc by a 64-gon
        return d < r
    if k == "group":
        rs = [shape_vs_ring(m, R) for m in sp[1]]
        if any(x is True for x in rs):
            return True
        return None if any(x is None for x in rs) else False
    raise KeyError(k)


def lanelets_hit_by(sp, ids, table=None):
    """(sorted decided-hit ids, sorted undecided ids)"""
    hit, und = [], []
    for i in ids:
        r = shape_vs_ring(sp, ring_of(i, table))
        if r is True:
            hit.append(i)
        elif r is None:
            und.append(i)
    return sorted(hit), sorted(und)


QUERY_SHAPES = [["rect", 2.0, 1.0, 0.0, 0.0, 0], ["rect", 1.0, 3.0, 0.0, 0.0, 0], ["rect", 3.0, 1.0, 0.0, 0.0, 0.7], ["rect", 2.0, 2.0, 0.0, 0.0, math.pi / 4],
                ["circle", 0.75, 0.0, 0.0], ["circle", 1.25, 0.0, 0.0], ["circle", 2.25, 0.0, 0.0],
                ["poly", [[-1.0, -0.5], [1.0, -0.5], [0.0, 1.0]]], ["poly", [[-1.0, -1.0], [1.0, -1.0], [1.0, 1.0], [0.0, 0.0], [-1.0, 1.0]]],
                # non-convex polygon whose centroid lies outside it (a "C" open to the right); placed at anchor (12, 0.25) it surrounds the start of
                # the narrow lanelet 4 without touching it, and its centroid lies on that lanelet
                ["poly", [[-4.0, -2.25], [1.0, -2.25], [1.0, -1.25], [-3.0, -1.25], [-3.0, 1.25], [1.0, 1.25], [1.0, 2.25], [-4.0, 2.25]]],
                # shape groups whose members lie apart, so that for many anchors only one member reaches a lanelet (union semantics)
                ["group", [["rect", 2.0, 1.0, 0.0, 0.0, 0], ["rect", 1.0, 1.0, 3.0, 4.25, 0]]],
                ["group", [["poly", [[-1.0, -0.5], [1.0, -0.5], [0.0, 1.0]]], ["rect", 1.0, 1.0, -4.0, 0.25, 0], ["rect", 0.5, 0.5, 0.0, -3.25, 0]]]]
ANCHORS = [(1.0, 1.0), (4.0, 2.0), (4.0, 3.0), (8.0, 0.0), (9.0, 1.5), (0.0, 4.0), (6.0, 5.0), (8.5, 7.5), (-1.5, 1.0), (4.0, -4.0), (4.0, -1.5), (12.0, 0.25),
           (12.0, 1.5), (11.0, 4.0), (12.5, 5.5), (2.0, 2.0), (10.0, 2.5), (102.0, 101.0), (50.0, 50.0), (6.0, 3.5)]


def shape_at(sp, ax, ay):
    k = sp[0]
    if k == "rect":
        return ["rect", sp[1], sp[2], sp[3] + ax, sp[4] + ay, sp[5]]
    if k == "circle":
        return ["circle", sp[1], sp[2] + ax, sp[3] + ay]
    if k == "poly":
        return ["poly", [[x + ax, y + ay] for x, y in sp[1]]]
    if k == "group":
        return ["group", [shape_at(m, ax, ay) for m in sp[1]]]
    raise KeyError(k)
