"""Bounded exhaustive exploration (model checking) of commonroad-io properties C01..C20.

Every transition / evaluation explored is a call into the real ``commonroad`` package imported
from the working tree ($VERIF_REPO, default /repo).  See /verif/DESIGN.md.
"""
