"""C20 - lanelet arc-length geometry and successor-route enumeration.  E2-grid.

(a) all centre lines of 1..3 (thorough 1..4) lattice steps (integer segment lengths) x 3 boundary-offset schemes x every
    s in {0, vertex arc lengths, segment mid/quarter points, total length}: distance and interpolate_position against an
    independent arc-length walker;  (b) all ordered pairs (pred, succ) with coincident joint from a polyline subset x 3
    ways of declaring the relation x both argument orders: merge_lanelets;  (c) ALL directed graphs without self-loops
    on n <= 4 (thorough: n = 5 with <= 6 edges) labelled lanelets x 2 length assignments x every start lanelet x 6 range
    limits, successor and predecessor variants, each call under a wall-clock alarm (non-termination verdict).
"""
import contextlib
import itertools
import math
import signal

from mc.core import Result

PROPERTY = "C20"
RULE = ("(a) full product polylines x offset schemes x s-values, (b) all joinable ordered pairs, (c) all digraphs without "
        "self-loops on n<=4 (thorough + n=5 up to 6 edges) x length classes x start x range limits x {successors, "
        "predecessors}. non-trivial: (a) s strictly inside, on a vertex or at an end of a polyline with >=2 segments; "
        "(c) graphs with >=1 edge out of the start lanelet; distinct by construction")
ASSUMPTIONS = ["lattice steps (3,4),(4,-3),(5,0),(0,5),(6,8),(-3,4) have exact integer lengths; two irrational steps are "
               "checked with tolerance 1e-9",
               "at an interior vertex either adjacent segment index is accepted (the statement fixes points, not the index)",
               "duplicate chains in the returned list are not a violation; completeness of the chain set beyond 'every direct "
               "successor heads a chain' is not asserted",
               "a call that does not return within 10 s on a <=5-lanelet graph is reported as non-termination"]

STEPS = [(3, 4), (4, -3), (5, 0), (0, 5), (6, 8), (-3, 4)]
IRR = [(1, 1), (2, 1)]
OFFS = ["const", "grow", "skew"]
RANGES = [5, 10, 15, 25, 40, 1000]
TOL = 1e-9


def describe(tier):
    return {"steps": STEPS + IRR, "max_steps": 3 if tier == "quick" else 4, "offset_schemes": OFFS + ["int (integer-typed vertex arrays)"], "query_order": "ascending then descending on one lanelet object",
            "graphs": "all digraphs n<=4" + ("" if tier == "quick" else ", n=5 with <=6 edges"),
            "length_classes": ["all 10", "lanelet 2 has length 25"], "ranges": RANGES, "exhaustive": True}


def _polylines(maxsteps):
    out = []
    for n in range(1, maxsteps + 1):
        for seq in itertools.product(range(len(STEPS)), repeat=n):
            # consecutive vertices distinct is guaranteed; skip immediate reversal (degenerate spike) - still valid, keep
            out.append([STEPS[i] for i in seq])
    for seq in ([IRR[0]], [IRR[0], IRR[1]], [IRR[1], STEPS[0], IRR[0]]):
        out.append(list(seq))
    return out


def _verts(steps, start=(0.0, 0.0)):
    pts = [start]
    for dx, dy in steps:
        pts.append((pts[-1][0] + dx, pts[-1][1] + dy))
    return pts


def _bounds(center, scheme):
    o = (-1.5, 2.0)
    left, right = [], []
    if scheme == "int":
        # integer offsets: together with a lattice centre line all three polylines can be given as integer-typed arrays
        return [(x - 2, y + 3) for x, y in center], [(x + 2, y - 3) for x, y in center]
    for i, (x, y) in enumerate(center):
        if scheme == "const":
            fl, fr = 1.0, 1.0
        elif scheme == "grow":
            fl, fr = 1.0 + 0.5 * i, 1.0 + 0.25 * i
        else:
            fl, fr = 2.0 - 0.25 * i, 0.5 + 0.5 * i
        left.append((x + o[0] * fl, y + o[1] * fl))
        right.append((x - o[0] * fr, y - o[1] * fr))
    return left, right


def _mk_lanelet(center, left, right, lid, pred=None, succ=None, dtype=float):
    import numpy as np
    from commonroad.scenario.lanelet import Lanelet
    return Lanelet(np.array(left, dtype=dtype), np.array(center, dtype=dtype), np.array(right, dtype=dtype), lid,
                   predecessor=list(pred or []), successor=list(succ or []))


def units(tier):
    ms = 3 if tier == "quick" else 4
    n = len(_polylines(ms))
    u = [{"k": "interp", "ms": ms, "lo": i, "hi": min(n, i + 100)} for i in range(0, n, 100)]
    u += [{"k": "merge", "shard": i} for i in range(8)]
    u.append({"k": "routes"})
    # graphs: n=1..3 in one unit, n=4 sharded by the out-edges of lanelet 1 and 2 (64 shards)
    u.append({"k": "graphs", "n": 1}); u.append({"k": "graphs", "n": 2}); u.append({"k": "graphs", "n": 3})
    for sh in range(64):
        u.append({"k": "graphs", "n": 4, "shard": sh})
    if tier == "thorough":
        for sh in range(64):
            u.append({"k": "graphs", "n": 5, "shard": sh, "max_edges": 6})
    return u


# ------------------------------------------------------------------ (a)

def _walker(center, left, right, s):
    """independent arc-length walk (points of any dimension); returns list of acceptable (c, r, l, idx)"""
    seg = [math.sqrt(sum((q - p) ** 2 for p, q in zip(center[i], center[i + 1]))) for i in range(len(center) - 1)]
    acc = 0.0
    out = []
    for i, L in enumerate(seg):
        if acc - 1e-12 <= s <= acc + L + 1e-12:
            r = min(1.0, max(0.0, (s - acc) / L))
            lerp = lambda P: tuple((1 - r) * p + r * q for p, q in zip(P[i], P[i + 1]))
            out.append((lerp(center), lerp(right), lerp(left), i))
        acc += L
    return out, seg


def _check_interp(steps, scheme, res, case_extra=None):
    center = _verts(steps)
    moved = None
    again2d = False
    if scheme.startswith("2d-again:"):
        # queried (every table exists), then convert_to_2d() is called on the lanelet although it is two-dimensional already, and everything is checked
        # again.  grow / skew boundaries have other lengths than the centre line
        scheme, again2d = scheme.split(":")[1], True
    if scheme.startswith("moved:"):
        # the lanelet is constructed and QUERIED (distance table, one interpolation), then moved with translate_rotate, and everything is checked
        # against the moved geometry.  grow / skew boundaries are not symmetric about the centre line (the centre is not their midpoint)
        scheme, moved = scheme.split(":")[1], ((7.0, -3.0), {"const": math.pi / 2, "grow": 0.5, "skew": -2.0}[scheme.split(":")[1]])
    left, right = _bounds(center, "const" if scheme in ("3d", "setters", "3d-flattened", "far-small") else scheme)
    if scheme == "far-small":
        # a densely sampled lanelet far from the origin (UTM-like coordinates): vertices 0.1 .. 1 m apart at coordinates of several 1e4 m
        center, left, right = ([(6.0e4 + 0.1 * x, 4.0e4 + 0.1 * y) for x, y in P] for P in (center, left, right))
    if scheme == "3d":
        # (n, 3) polylines: a ramp whose height changes from vertex to vertex; the length of the centre line is its length in space
        zs = [0.0, 2.0, 2.0, 7.0, 3.0][:len(center)]
        center, left, right = ([(x, y, z) for (x, y), z in zip(P, zs)] for P in (center, left, right))
    case = {"k": "interp", "steps": [list(s) for s in steps], "scheme": scheme}
    res.states += 1
    try:
        if scheme == "setters":
            # another geometry at construction; the real one is assigned through the public vertex setters before anything is queried
            import numpy as np
            ll = _mk_lanelet([(2 * x + 1, y - 3) for x, y in center], [(2 * x + 1, y - 2) for x, y in left], [(2 * x + 1, y - 4) for x, y in right], 1)
            ll.left_vertices = np.array(left, dtype=float); ll.center_vertices = np.array(center, dtype=float); ll.right_vertices = np.array(right, dtype=float)
        elif scheme == "3d-flattened":
            zs = [0.0, 2.0, 2.0, 7.0, 3.0][:len(center)]
            ll = _mk_lanelet(*([(x, y, z) for (x, y), z in zip(P, zs)] for P in (center, left, right)), 1)
            ll.convert_to_2d()
        else:
            ll = _mk_lanelet(center, left, right, 1, dtype=int if scheme == "int" else float)
        if again2d:
            case["scheme"] = "2d-again:" + scheme
            _ = ll.distance; _ = ll.inner_distance; ll.interpolate_position(0.5 * float(ll.distance[-1]))
            ll.convert_to_2d()
        if moved is not None:
            import numpy as np
            case["scheme"] = "moved:" + scheme
            _ = ll.distance; ll.interpolate_position(0.5 * float(ll.distance[-1]))
            ll.translate_rotate(np.array(moved[0]), moved[1])
            co, si = math.cos(moved[1]), math.sin(moved[1])
            center0 = center
            # (documented order: translate first, then rotate about the origin)
            center, left, right = ([(co * (x + moved[0][0]) - si * (y + moved[0][1]), si * (x + moved[0][0]) + co * (y + moved[0][1])) for x, y in P] for P in (center, left, right))
            for nm, got, exp in (("center", ll.center_vertices, center), ("left", ll.left_vertices, left), ("right", ll.right_vertices, right)):
                res.evals += 1
                if got.shape != (len(exp), 2) or any(abs(a - b) > 1e-9 * (1 + abs(b)) for g, e in zip(got.tolist(), exp) for a, b in zip(g, e)):
                    res.violation(f"C20|translate_rotate|{nm}-vertices-not-the-moved-polyline", f"{case}: got {got.tolist()} expected {exp}", case)
                    return
        dist = [float(x) for x in ll.distance]
    except Exception as e:
        res.violation(f"C20|distance|raises:{type(e).__name__}", repr(e), case)
        return
    res.transitions += 1
    # (arc lengths of a moved lanelet: those of the polyline it was constructed with - a rigid motion preserves them, and the query values
    #  must not exceed the lanelet's own length by rounding of the moved coordinates)
    _, seg = _walker(center0 if moved is not None else center, left, right, 0.0)
    cum = [0.0]
    for L in seg:
        cum.append(cum[-1] + L)
    res.evals += 1
    if len(dist) != len(cum) or dist[0] != 0 or any(dist[i + 1] < dist[i] for i in range(len(dist) - 1)) or \
            any(abs(a - b) > (1e-12 if moved is None else 1e-9) * (1 + b) for a, b in zip(dist, cum)):
        res.violation("C20|distance|wrong-cumulative", f"{dist} expected {cum}", case)
    svals = set([0.0, cum[-1]])
    for i, L in enumerate(seg):
        svals.update([cum[i], cum[i] + L / 2, cum[i] + L / 4, cum[i] + 3 * L / 4])
    # one lanelet object answers all queries: ascending arc lengths first, then the same ones descending (an answer must not depend on
    # the queries made before it)
    for qi, s in enumerate(sorted(svals) + sorted(svals, reverse=True)[1:]):
        res.evals += 1; res.transitions += 1
        where = "end" if s in (0.0, cum[-1]) else ("vertex" if any(abs(s - c) < 1e-12 for c in cum) else "interior")
        if qi >= len(svals):
            where += "(descending)"
        if len(seg) >= 2:
            res.nontrivial += 1
        exp, _ = _walker(center, left, right, s)
        for arg, tn in ((s, "float"), (int(s), "int")) if float(s).is_integer() else ((s, "float"),):
            try:
                c, r, l, idx = ll.interpolate_position(arg)
            except Exception as e:
                res.violation(f"C20|interpolate@{where}|arg:{tn}|raises:{type(e).__name__}", f"s={s}: {e!r}", dict(case, s=s))
                continue
            ok = False
            for ec, er, el, ei in exp:
                if all(abs(a - b) <= TOL * (1 + abs(b)) for P, Q in ((c, ec), (r, er), (l, el)) for a, b in zip(P, Q)) and int(idx) == ei:
                    ok = True
            if not ok:
                pts_ok = any(all(abs(a - b) <= TOL * (1 + abs(b)) for P, Q in ((c, ec), (r, er), (l, el)) for a, b in zip(P, Q))
                             for ec, er, el, ei in exp)
                res.violation(f"C20|interpolate@{where}|{'wrong-segment-index' if pts_ok else 'wrong-point'}",
                              f"s={s}: got c={list(c)} r={list(r)} l={list(l)} idx={idx}; expected one of {exp}", dict(case, s=s))
            res.outcomes[f"interp@{where}"] += 1


# ------------------------------------------------------------------ (b)

def _merge_pairs():
    pl = _polylines(2)
    return pl[:40] if len(pl) >= 40 else pl


def _check_merge(a_steps, b_steps, decl, order, res):
    import numpy as np
    from commonroad.scenario.lanelet import Lanelet
    ca = _verts(a_steps)
    la, ra = _bounds(ca, "const")
    cb = _verts(b_steps, start=ca[-1])
    lb, rb = _bounds(cb, "const")
    case = {"k": "merge", "a": [list(s) for s in a_steps], "b": [list(s) for s in b_steps], "decl": decl, "order": order}
    res.states += 1; res.evals += 1; res.transitions += 1; res.nontrivial += 1
    A = _mk_lanelet(ca, la, ra, 3, succ=[4] if decl in ("succ", "both") else [], pred=[9])
    B = _mk_lanelet(cb, lb, rb, 4, pred=[3] if decl in ("pred", "both") else [], succ=[11, 12])
    lenA, lenB = float(A.distance[-1]), float(B.distance[-1])
    try:
        M = Lanelet.merge_lanelets(A, B) if order == "AB" else Lanelet.merge_lanelets(B, A)
    except Exception as e:
        res.violation(f"C20|merge|decl:{decl}|order:{order}|raises:{type(e).__name__}", repr(e), case)
        return
    for name, got, exp in (("left", M.left_vertices, la + lb[1:]), ("right", M.right_vertices, ra + rb[1:]),
                           ("center", M.center_vertices, ca + cb[1:])):
        exp = np.array(exp, dtype=float)
        if got.shape != exp.shape or not np.allclose(got, exp, atol=1e-12, rtol=0):
            res.violation(f"C20|merge|{name}-not-concatenation", f"got {got.tolist()} expected {exp.tolist()}", case)
    if abs(float(M.distance[-1]) - (lenA + lenB)) > 1e-9 * (1 + lenA + lenB):
        res.violation("C20|merge|length-not-additive", f"{float(M.distance[-1])} != {lenA}+{lenB}", case)
    # the merged lanelet must itself satisfy the arc-length clauses (its distance may have been pre-computed by merge)
    mc_, ml_, mr_ = ca + cb[1:], la + lb[1:], ra + rb[1:]
    _, seg = _walker(mc_, ml_, mr_, 0.0)
    cum = [0.0]
    for L in seg:
        cum.append(cum[-1] + L)
    try:
        md = [float(x) for x in M.distance]
        if len(md) != len(cum) or any(abs(a - b) > 1e-9 * (1 + b) for a, b in zip(md, cum)):
            res.violation(f"C20|merge|order:{order}|merged-distance-wrong", f"{md} expected {cum}", case)
        for i, L in enumerate(seg):
            s_ = cum[i] + L / 2
            exp, _ = _walker(mc_, ml_, mr_, s_)
            c, r, l, idx = M.interpolate_position(s_)
            if not any(all(abs(a - b) <= TOL * (1 + abs(b)) for P, Q in ((c, ec), (r, er), (l, el)) for a, b in zip(P, Q))
                       for ec, er, el, ei in exp):
                res.violation(f"C20|merge|order:{order}|merged-interpolate-wrong-point", f"s={s_}: {list(c)} expected {exp}", case)
                break
    except Exception as e:
        res.violation(f"C20|merge|order:{order}|merged-query-raises:{type(e).__name__}", repr(e), case)
    if sorted(M.predecessor) != [9] or sorted(M.successor) != [11, 12]:
        res.outcomes["merge-relations-differ(info)"] += 1
    res.outcomes["merge-ok"] += 1


# ------------------------------------------------------------------ (b') merging along successor routes

# tree: root -> {a -> b, c}; every successor starts where its predecessor ends.  The id assignments include ones whose decimal concatenations
# coincide for different routes ("1"+"2"+"3" = "1"+"23", "10"+"1"+"2" = "10"+"12")
ROUTE_IDS = [(1, 2, 3, 4), (1, 2, 3, 23), (10, 1, 2, 12), (5, 51, 1, 511), (7, 8, 9, 89),
             (1, 2, 3, 32), (3, 2, 1, 21),                      # ... and ids whose concatenation collides when read from the far end (3-2-1 / 32-1)
             (50195, 50196, 50197, 50198), (4000000001, 4000000002, 4000000003, 7)]       # ordinary multi-digit ids: the id of a merged lanelet is longer than any machine integer
ROUTE_SHAPES = [((5, 0), (5, 0)), ((3, 4), (4, -3)), ((6, 8), (5, 0))]      # steps of (a, b); c goes off at another angle


def _check_routes(ids, shape, res):
    import numpy as np
    from commonroad.scenario.lanelet import Lanelet, LaneletNetwork
    r, a, b, c = ids
    case = {"k": "routes", "ids": list(ids), "shape": [list(x) for x in shape]}
    res.evals += 1; res.transitions += 1; res.nontrivial += 1; res.states += 1
    cr = _verts([(5, 0), (5, 0)])
    ca = _verts([shape[0]], start=cr[-1]); cb = _verts([shape[1]], start=ca[-1]); cc = _verts([(0, 5), (-3, 4)], start=cr[-1])
    geo = {}
    for lid, cen in ((r, cr), (a, ca), (b, cb), (c, cc)):
        l_, r_ = _bounds(cen, "const")
        geo[lid] = (cen, l_, r_)
    succ = {r: [a, c], a: [b], b: [], c: []}
    pred = {r: [], a: [r], b: [a], c: [r]}
    net = LaneletNetwork.create_from_lanelet_list([_mk_lanelet(geo[i][0], geo[i][1], geo[i][2], i, pred=pred[i], succ=succ[i]) for i in (r, a, b, c)])
    try:
        merged, jobs = Lanelet.all_lanelets_by_merging_successors_from_lanelet(net.find_lanelet_by_id(r), net, 1000.0)
    except Exception as e:
        res.violation(f"C20|merged-routes|raises:{type(e).__name__}", f"{case}: {e!r}", case)
        return
    jobs = [list(j) for j in jobs]
    if sorted(jobs) != sorted([[r, a, b], [r, c]]):
        res.violation("C20|merged-routes|routes", f"{case}: routes {jobs}, expected [[{r},{a},{b}],[{r},{c}]]", case)
        return
    for m, job in zip(merged, jobs):
        for name, k_, got in (("center", 0, m.center_vertices), ("left", 1, m.left_vertices), ("right", 2, m.right_vertices)):
            exp = list(geo[job[0]][k_])
            for lid in job[1:]:
                exp += list(geo[lid][k_])[1:]
            exp = np.array(exp, dtype=float)
            if got.shape != exp.shape or not np.allclose(got, exp, atol=1e-12, rtol=0):
                res.violation(f"C20|merged-routes|{name}-not-concatenation-of-the-route", f"{case}: route {job}: got {got.tolist()} expected {exp.tolist()}", case)
                return
        total = sum(sum(math.hypot(geo[lid][0][i + 1][0] - geo[lid][0][i][0], geo[lid][0][i + 1][1] - geo[lid][0][i][1]) for i in range(len(geo[lid][0]) - 1)) for lid in job)
        if abs(float(m.distance[-1]) - total) > 1e-9 * (1 + total):
            res.violation("C20|merged-routes|length-not-sum-of-the-route", f"{case}: route {job}: {float(m.distance[-1])} != {total}", case)
    res.outcomes["merged-routes-ok"] += 1
    # the mirror image: the same tree with every link reversed, merged along the PREDECESSOR routes of the last lanelet (r is then the end of every
    # route); the merged lanelet of a route runs from the route's farthest lanelet to r
    rev = lambda pts: [tuple(p) for p in pts][::-1]
    geo2 = {lid: (rev(g[0]), rev(g[2]), rev(g[1])) for lid, g in geo.items()}      # driving direction reversed: left and right swap
    net2 = LaneletNetwork.create_from_lanelet_list([_mk_lanelet(geo2[i][0], geo2[i][1], geo2[i][2], i, pred=succ[i], succ=pred[i]) for i in (r, a, b, c)])
    try:
        merged2, jobs2 = Lanelet.all_lanelets_by_merging_predecessors_from_lanelet(net2.find_lanelet_by_id(r), net2, 1000.0)
    except Exception as e:
        res.violation(f"C20|merged-predecessor-routes|raises:{type(e).__name__}", f"{case}: {e!r}", case)
        return
    jobs2 = [list(j) for j in jobs2]
    if sorted(sorted(j) for j in jobs2) != sorted([sorted([r, a, b]), sorted([r, c])]):
        res.violation("C20|merged-predecessor-routes|routes", f"{case}: routes {jobs2}, expected the lanelets of [{r},{a},{b}] and of [{r},{c}]", case)
        return
    for m, job in zip(merged2, jobs2):
        chain = [x for x in (b, a, r) if x in job] if a in job else [c, r]
        for name, k_, got in (("center", 0, m.center_vertices), ("left", 1, m.left_vertices), ("right", 2, m.right_vertices)):
            exp = list(geo2[chain[0]][k_])
            for lid in chain[1:]:
                exp += list(geo2[lid][k_])[1:]
            exp = np.array(exp, dtype=float)
            if got.shape != exp.shape or not np.allclose(got, exp, atol=1e-12, rtol=0):
                res.violation(f"C20|merged-predecessor-routes|{name}-not-concatenation-of-the-route", f"{case}: route {job}: got {got.tolist()} expected {exp.tolist()}", case)
                return
        total = sum(sum(math.hypot(geo[lid][0][i + 1][0] - geo[lid][0][i][0], geo[lid][0][i + 1][1] - geo[lid][0][i][1]) for i in range(len(geo[lid][0]) - 1)) for lid in chain)
        if abs(float(m.distance[-1]) - total) > 1e-9 * (1 + total):
            res.violation("C20|merged-predecessor-routes|length-not-sum-of-the-route", f"{case}: route {job}: {float(m.distance[-1])} != {total}", case)
    res.outcomes["merged-predecessor-routes-ok"] += 1


def _check_shared_bound(angle, res):
    """two neighbouring lanelets constructed with ONE ndarray as their common boundary (the left bound of the lower, the right bound of the upper
    lane), added to a network, queried, and the NETWORK moved: every lanelet's boundaries and the interpolated points are those of the moved polylines"""
    import numpy as np
    from commonroad.scenario.lanelet import Lanelet, LaneletNetwork
    case = {"k": "shared-bound", "angle": angle}
    res.evals += 1; res.transitions += 1; res.nontrivial += 1; res.states += 1
    xs = [0.0, 3.0, 7.0, 12.0]
    lo = [(x, 0.0) for x in xs]; mid = [(x, 3.0 + 0.25 * i) for i, x in enumerate(xs)]; hi = [(x, 6.5) for x in xs]
    c1 = [((a[0] + b[0]) / 2, (a[1] + b[1]) / 2) for a, b in zip(lo, mid)]; c2 = [((a[0] + b[0]) / 2, (a[1] + b[1]) / 2) for a, b in zip(mid, hi)]
    shared = np.array(mid, dtype=float)
    t = (7.0, -3.0)
    try:
        net = LaneletNetwork()
        net.add_lanelet(Lanelet(shared, np.array(c1, dtype=float), np.array(lo, dtype=float), 1, adjacent_left=2, adjacent_left_same_direction=True))
        net.add_lanelet(Lanelet(np.array(hi, dtype=float), np.array(c2, dtype=float), shared, 2, adjacent_right=1, adjacent_right_same_direction=True))
        for l_ in net.lanelets:
            _ = l_.distance; l_.interpolate_position(1.0)
        net.translate_rotate(np.array(t), angle)
    except Exception as e:
        res.violation(f"C20|shared-bound|raises:{type(e).__name__}", f"{case}: {e!r}", case)
        return
    co, si = math.cos(angle), math.sin(angle)
    mv = lambda P: [(co * (x + t[0]) - si * (y + t[1]), si * (x + t[0]) + co * (y + t[1])) for x, y in P]
    for lid, cen, left, right in ((1, c1, mid, lo), (2, c2, hi, mid)):
        ll = net.find_lanelet_by_id(lid)
        for nm, got, exp in (("center", ll.center_vertices, mv(cen)), ("left", ll.left_vertices, mv(left)), ("right", ll.right_vertices, mv(right))):
            if got.shape != (len(exp), 2) or any(abs(a - b) > 1e-9 * (1 + abs(b)) for g, e in zip(got.tolist(), exp) for a, b in zip(g, e)):
                res.violation(f"C20|shared-bound|{nm}-vertices-not-the-moved-polyline", f"{case}: lanelet {lid}: got {got.tolist()} expected {exp}", case)
                return
        L = float(ll.distance[-1])
        for sval in (0.0, L / 3, L / 2, L):
            exp, _ = _walker(mv(cen), mv(left), mv(right), min(sval, sum(math.dist(a, b) for a, b in zip(mv(cen), mv(cen)[1:]))))
            c, r, l, idx = ll.interpolate_position(sval)
            if not any(all(abs(a - b) <= 1e-7 * (1 + abs(b)) for P, Q in ((c, ec), (r, er), (l, el)) for a, b in zip(P, Q)) for ec, er, el, ei in exp):
                res.violation("C20|shared-bound|interpolate|wrong-point", f"{case}: lanelet {lid} s={sval}: got c={list(c)} r={list(r)} l={list(l)}", case)
                return
    res.outcomes["shared-bound-ok"] += 1


# ------------------------------------------------------------------ (c)

class _Timeout(Exception):
    pass


def _alarm(signum, frame):
    raise _Timeout()


def _graph_iter(n, shard=None, max_edges=None):
    """all successor relations on ids 1..n without self loops; sharded by the 6 lowest edge bits"""
    edges = [(i, j) for i in range(1, n + 1) for j in range(1, n + 1) if i != j]
    m = len(edges)
    if shard is None:
        masks = range(1 << m)
    else:
        masks = (hi << 6 | shard for hi in range(1 << (m - 6)))
    for mask in masks:
        if max_edges is not None and bin(mask).count("1") > max_edges:
            continue
        yield mask, [edges[b] for b in range(m) if mask >> b & 1]


def _check_graph(n, mask, edges, lens, res):
    from commonroad.scenario.lanelet import LaneletNetwork
    succ = {i: [] for i in range(1, n + 1)}
    pred = {i: [] for i in range(1, n + 1)}
    for i, j in edges:
        succ[i].append(j); pred[j].append(i)
    lanelets = []
    for i in range(1, n + 1):
        L = lens[i - 1]
        y = 10.0 * i
        lanelets.append(_mk_lanelet([(0, y), (L, y)], [(0, y + 1), (L, y + 1)], [(0, y - 1), (L, y - 1)], i,
                                    pred=pred[i], succ=succ[i]))
    net = LaneletNetwork.create_from_lanelet_list(lanelets)
    res.states += 1
    _graph_queries(net, n, edges, lens, succ, pred, list(range(1, n + 1)), RANGES, res, "")
    if n >= 2:
        # the network reached by REMOVING a lanelet from a network whose links are stored on one side only (successor lists, no predecessor
        # lists): the remaining lanelets' successor chains are those of the graph without that lanelet
        one_sided = [_mk_lanelet([(0, 10.0 * i), (lens[i - 1], 10.0 * i)], [(0, 10.0 * i + 1), (lens[i - 1], 10.0 * i + 1)], [(0, 10.0 * i - 1), (lens[i - 1], 10.0 * i - 1)], i,
                                 pred=[], succ=succ[i]) for i in range(1, n + 1)]
        net2 = LaneletNetwork.create_from_lanelet_list(one_sided, cleanup_ids=False)
        try:
            net2.remove_lanelet(n)
        except Exception as e:
            res.violation(f"C20|after-removal|remove_lanelet-raises:{type(e).__name__}", repr(e), {"k": "graph", "n": n, "edges": [list(e_) for e_ in edges], "lens": list(lens)})
            return
        succ2 = {i: [j for j in succ[i] if j != n] for i in range(1, n)}
        _graph_queries(net2, n, edges, lens, succ2, None, list(range(1, n)), [15, 1000], res, "after-removal:")
        # the network reached by REPLACING lanelet 2 under its id: the lanelet is looked up (inspected), removed, a lanelet of another length and
        # without outgoing links is added under the same id, and the links into it are restored on the lanelet objects the caller kept.
        # The searches start from kept objects (no lookup by the harness in between): chains and lengths are those of the network as it is now
        x = 2
        net3 = LaneletNetwork.create_from_lanelet_list([_mk_lanelet([(0, 10.0 * i), (lens[i - 1], 10.0 * i)], [(0, 10.0 * i + 1), (lens[i - 1], 10.0 * i + 1)],
                                                                      [(0, 10.0 * i - 1), (lens[i - 1], 10.0 * i - 1)], i, pred=pred[i], succ=succ[i]) for i in range(1, n + 1)])
        case3 = {"k": "graph", "n": n, "edges": [list(e_) for e_ in edges], "lens": list(lens)}
        try:
            kept = {i: net3.find_lanelet_by_id(i) for i in range(1, n + 1) if i != x}
            _ = net3.find_lanelet_by_id(x).distance
            net3.remove_lanelet(x)
            lens3 = list(lens); lens3[x - 1] = 10.0 if lens[x - 1] != 10.0 else 30.0
            newx = _mk_lanelet([(0, 10.0 * x), (lens3[x - 1], 10.0 * x)], [(0, 10.0 * x + 1), (lens3[x - 1], 10.0 * x + 1)], [(0, 10.0 * x - 1), (lens3[x - 1], 10.0 * x - 1)], x,
                               pred=[p for p in pred[x] if p != x], succ=[])
            net3.add_lanelet(newx)
            for i in kept:
                kept[i].successor = list(succ[i])
            kept[x] = newx
        except Exception as e:
            res.violation(f"C20|after-replacement|setup-raises:{type(e).__name__}", repr(e), case3)
            return
        succ3 = {i: (list(succ[i]) if i != x else []) for i in range(1, n + 1)}
        pred3 = {i: [p for p in pred[i] if p != x or i == x] for i in range(1, n + 1)}
        pred3[x] = [p for p in pred[x] if p != x]
        _graph_queries(net3, n, edges, lens3, succ3, pred3, list(range(1, n + 1)), [15, 25, 1000], res, "after-replacement:", objs=kept)


def _graph_queries(net, n, edges, lens, succ, pred, starts, ranges, res, tag, objs=None):
    for start in starts:
        ll = net.find_lanelet_by_id(start) if objs is None else objs[start]
        for direction, rel, fn in (("successors", succ, ll.find_lanelet_successors_in_range),
                                   ("predecessors", pred, ll.find_lanelet_predecessors_in_range)):
            if rel is None:
                continue
            direction = tag + direction
            for R in ranges:
                case = {"k": "graph", "n": n, "edges": [list(e) for e in edges], "lens": list(lens), "start": start,
                        "dir": direction, "range": R}
                res.evals += 1; res.transitions += 1
                if rel[start]:
                    res.nontrivial += 1
                signal.signal(signal.SIGALRM, _alarm)
                signal.alarm(10)
                try:
                    chains = fn(net, max_length=R)
                except _Timeout:
                    res.violation(f"C20|{direction}:non-termination", f"{case}", case)
                    continue
                except Exception as e:
                    res.violation(f"C20|{direction}:raises:{type(e).__name__}", repr(e), case)
                    continue
                finally:
                    signal.alarm(0)
                heads = set()
                for ch in chains:
                    ch = [int(x) for x in ch]
                    if not ch:
                        res.violation(f"C20|{direction}:empty-chain", str(chains), case); continue
                    heads.add(ch[0])
                    if ch[0] not in rel[start]:
                        res.violation(f"C20|{direction}:first-not-direct", f"{ch}", case)
                    if start in ch:
                        res.violation(f"C20|{direction}:revisits-start", f"{ch}", case)
                    if len(set(ch)) != len(ch):
                        res.violation(f"C20|{direction}:repeated-lanelet", f"{ch}", case)
                    if any(b not in rel[a] for a, b in zip(ch, ch[1:])):
                        res.violation(f"C20|{direction}:broken-link", f"{ch}", case)
                    acc = 0.0
                    for k, x in enumerate(ch[:-1]):
                        acc += lens[x - 1]
                        if not acc < R:
                            res.violation(f"C20|{direction}:extended-beyond-range", f"{ch} range {R} lens {lens}", case)
                            break
                if heads != set(rel[start]) and not (heads - set(rel[start])):
                    res.violation(f"C20|{direction}:direct-not-covered", f"heads {sorted(heads)} direct {rel[start]}", case)
                res.outcomes[f"chains={min(len(chains), 9)}"] += 1


def run_unit(unit, tier):
    res = Result()
    k = unit["k"]
    if k == "interp":
        pl = _polylines(unit["ms"])[unit["lo"]:unit["hi"]]
        for steps in pl:
            for scheme in OFFS + ["int", "3d", "setters", "3d-flattened", "far-small", "moved:const", "moved:grow", "moved:skew", "2d-again:grow", "2d-again:skew"]:
                _check_interp(steps, scheme, res)
            res.sample({"k": "interp", "steps": steps}, 2)
    elif k == "merge":
        pl = _merge_pairs()
        idx = 0
        for a in pl:
            for b in pl:
                idx += 1
                if idx % 8 != unit["shard"]:
                    continue
                for decl in ("succ", "pred", "both"):
                    for order in ("AB", "BA"):
                        _check_merge(a, b, decl, order, res)
        res.sample({"k": "merge", "n_polylines": len(pl)}, 1)
    elif k == "routes":
        for ids in ROUTE_IDS:
            for shape in ROUTE_SHAPES:
                _check_routes(ids, shape, res)
        for ang in (0.0, 0.4, -math.pi / 2):
            _check_shared_bound(ang, res)
        res.sample({"k": "routes", "ids": ROUTE_IDS}, 1)
    elif k == "graphs":
        n = unit["n"]
        for mask, edges in _graph_iter(n, unit.get("shard") if n >= 4 else None, unit.get("max_edges")):
            for lens in ([10.0] * n, [10.0 if i != 1 else 25.0 for i in range(n)]):
                _check_graph(n, mask, edges, lens, res)
            res.sample({"k": "graph", "n": n, "edges": edges}, 2)
    return res


def replay(case):
    res = Result()
    if case["k"] == "interp":
        _check_interp([tuple(s) for s in case["steps"]], case["scheme"], res)
    elif case["k"] == "merge":
        _check_merge([tuple(s) for s in case["a"]], [tuple(s) for s in case["b"]], case["decl"], case["order"], res)
    elif case["k"] == "routes":
        _check_routes(tuple(case["ids"]), [tuple(x) for x in case["shape"]], res)
    elif case["k"] == "shared-bound":
        _check_shared_bound(case["angle"], res)
    else:
        _check_graph(case["n"], 0, [tuple(e) for e in case["edges"]], case["lens"], res)
    return [(s, d) for s, d, _ in res.violations]


def canaries():
    from commonroad.scenario import lanelet as ln
    import numpy as np

    @contextlib.contextmanager
    def searchsorted_right():
        o = ln.Lanelet.interpolate_position

        def bad(self, distance):
            idx = min(np.searchsorted(self.distance, distance, side="right") - 1, len(self.distance) - 2)
            r = (distance - self.distance[idx]) / (self.distance[idx + 1] - self.distance[idx])
            r = min(r, 0.999)
            return ((1 - r) * self._center_vertices[idx] + r * self._center_vertices[idx + 1],
                    (1 - r) * self._right_vertices[idx] + r * self._right_vertices[idx + 1],
                    (1 - r) * self._left_vertices[idx] + r * self._left_vertices[idx + 1], idx)
        ln.Lanelet.interpolate_position = bad
        try:
            yield
        finally:
            ln.Lanelet.interpolate_position = o

    @contextlib.contextmanager
    def loop_guard_weak():
        o = ln.Lanelet.find_lanelet_successors_in_range

        def bad(self, lanelet_network, max_length=50.0):
            paths = [[s] for s in self.successor]
            paths_final = []
            lengths = [lanelet_network.find_lanelet_by_id(s).distance[-1] for s in self.successor]
            rounds = 0
            while paths and rounds < 12:
                rounds += 1
                paths_next, lengths_next = [], []
                for p, le in zip(paths, lengths):
                    successors = lanelet_network.find_lanelet_by_id(p[-1]).successor
                    if not successors:
                        paths_final.append(p)
                    else:
                        for s in successors:
                            if s in p[:-1] or le >= max_length:
                                paths_final.append(p)
                                continue
                            l_next = le + lanelet_network.find_lanelet_by_id(s).distance[-1]
                            if l_next < max_length:
                                paths_next.append(p + [s]); lengths_next.append(l_next)
                            else:
                                paths_final.append(p + [s])
                paths, lengths = paths_next, lengths_next
            return paths_final
        ln.Lanelet.find_lanelet_successors_in_range = bad
        try:
            yield
        finally:
            ln.Lanelet.find_lanelet_successors_in_range = o

    @contextlib.contextmanager
    def merge_keep_joint():
        o = ln.np.isclose
        orig = ln.Lanelet.merge_lanelets.__func__

        def bad(cls, l1, l2):
            m = orig(cls, l1, l2)
            return m
        # emulate idx = 0: duplicate the joint vertex
        import numpy as _np
        real_isclose = _np.isclose

        class _NP:
            def __getattr__(self, k):
                return getattr(_np, k)

            def isclose(self, a, b, *aa, **kw):
                return _np.zeros(_np.shape(a), dtype=bool)
        saved = ln.np
        ln.np = _NP()
        try:
            yield
        finally:
            ln.np = saved
    return [("interpolate-searchsorted-right", searchsorted_right), ("successor-loop-guard-weakened", loop_guard_weak),
            ("merge-keeps-joint-twice", merge_keep_joint)]
