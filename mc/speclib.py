"""Spec library for the file round-trip checks (C01, C02, C03, C15, C18, C19): one rich, schema-valid base scenario and the
deviation menu generated from the library's enums intersected with the schema artefacts actually shipped (XSD enumerations
parsed with lxml, protobuf EnumDescriptors).  A deviation is (slot, label, fn); fn mutates a deep copy of the base spec.
"""
import copy
import functools
import math
import os

from mc import spec

REALS = [1.23456789012345, -0.00004999, 12345.678912345678, 1e-07, 0.30000000000000004, -7.5, 3, 0.0, 99999.99995]


# --------------------------------------------------------------------------------------------- schema alphabets

@functools.lru_cache(maxsize=None)
def xsd_enums():
    """simpleType name -> set of enumeration values; plus 'direction' (inline) and 'tag' (element names)"""
    import commonroad
    from lxml import etree
    p = os.path.join(os.path.dirname(commonroad.__file__), "scenario_definition", "xml_definition_files", "XML_commonRoad_XSD.xsd")
    ns = {"xs": "http://www.w3.org/2001/XMLSchema"}
    t = etree.parse(p)
    out = {}
    for st in t.xpath("//xs:simpleType[@name]", namespaces=ns):
        out[st.get("name")] = {e.get("value") for e in st.xpath(".//xs:enumeration", namespaces=ns)}
    out["direction"] = {e.get("value") for e in t.xpath("//xs:element[@name='direction']//xs:enumeration", namespaces=ns)}
    out["tag"] = {e.get("name") for e in t.xpath("//xs:complexType[@name='tag']//xs:element", namespaces=ns)}
    out["state"] = {e.get("name") for e in t.xpath("//xs:complexType[@name='state']//xs:element", namespaces=ns)}
    return out


@functools.lru_cache(maxsize=None)
def pb_enum_names(module, path):
    import importlib
    m = importlib.import_module("commonroad.scenario_definition.protobuf_format.generated_scripts." + module)
    obj = m
    for part in path.split("."):
        obj = getattr(obj, part)
    return set(obj.DESCRIPTOR.values_by_name) if hasattr(obj, "DESCRIPTOR") else set(obj.keys())


def pb_state_fields():
    from commonroad.scenario_definition.protobuf_format.generated_scripts import obstacle_pb2
    return set(obstacle_pb2.State.DESCRIPTOR.fields_by_name)


def camel(name):
    parts = name.split("_")
    return parts[0] + "".join(p.title() for p in parts[1:])


def members(enum_cls, fmt, xsd_type=None, pb=None):
    """members of a library enum that the format can express"""
    out = []
    for m in enum_cls:
        if fmt == "xml":
            if xsd_type is None or m.value in xsd_enums()[xsd_type]:
                out.append(m.name)
        else:
            if pb is None or m.name in pb_enum_names(*pb):
                out.append(m.name)
    return out


def sign_members(fmt):
    """(enum class name, member name) expressible in the format"""
    from commonroad.scenario import traffic_sign as ts
    out = []
    seen = set()
    for alias in dir(ts):
        if not alias.startswith("TrafficSignID"):
            continue
        cls = getattr(ts, alias)
        if not isinstance(cls, type) or not hasattr(cls, "__members__") or cls in seen:
            continue
        seen.add(cls)            # TrafficSignIDZamunda is an alias of TrafficSignIDGermany
        cname = cls.__name__
        for m in cls:
            if fmt == "xml":
                if m.value in xsd_enums()["trafficSignID"]:
                    out.append((cname, m.name))
            else:
                try:
                    names = pb_enum_names("traffic_sign_pb2", f"{cname}Enum.{cname}")
                except Exception:
                    continue
                if m.name in names:
                    out.append((cname, m.name))
    return out


# --------------------------------------------------------------------------------------------- base scenario

def ks(t, x, y, o, v=4.0):
    return {"cls": "KSState", "attrs": {"time_step": t, "position": [x, y], "orientation": o, "velocity": v, "steering_angle": 0.02}}


def _nz(st, k=1.0):
    st["attrs"].update(acceleration=0.25 * k, yaw_rate=0.125 * k, slip_angle=-0.0625 * k)
    return st


def base():
    sp = _base()
    for o in sp["obstacles"]:
        if "initial_state" in o:
            _nz(o["initial_state"], 1.0 + 0.5 * (o["id"] - 30))
    _nz(sp["pps"][0]["initial_state"], 3.0)
    return sp


def _base():
    sp = {"dt": 0.1, "sid": {"country": "DEU", "map": "Test", "map_id": 1, "conf": 1, "beh": "T", "pred": 1}, "author": "A. Author", "affiliation": "TUM", "source": "handmade",
          "tags": ["URBAN", "INTERSECTION"],
          "location": {"geo_name_id": 2867714, "lat": 48.262333, "lon": 11.668775, "geo": {"ref": "+proj=utm +zone=32", "x": 1.5, "y": -2.25, "rot": 0.125, "scale": 1.0},
                       "env": {"time": [12, 30], "time_of_day": "NIGHT", "weather": "FOG", "underground": "WET"}},
          "lanelets": [
              {"id": 1, "left": [[0.0, 3.5], [10.25, 3.5], [20.5, 3.625]], "right": [[0.0, 0.0], [10.25, 0.0], [20.5, 0.125]], "mark_left": "DASHED", "mark_right": "SOLID", "succ": [2],
               "adj_left": [3, True], "types": ["URBAN"], "users_one_way": ["CAR", "BUS"], "users_bidirectional": ["BICYCLE"]},
              {"id": 2, "left": [[20.5, 3.625], [30.75, 4.0], [41.0, 4.5]], "right": [[20.5, 0.125], [30.75, 0.5], [41.0, 1.0]], "mark_left": "NO_MARKING", "mark_right": "BROAD_SOLID", "pred": [1],
               "types": ["URBAN", "MAIN_CARRIAGE_WAY"], "users_one_way": ["VEHICLE"], "signs": [10], "lights": [11],
               "stop_line": {"start": [39.0, 0.875], "end": [39.0, 4.375], "marking": "SOLID", "sign_ref": [10], "light_ref": [11]}},
              {"id": 3, "left": [[0.0, 7.0], [20.5, 7.125]], "right": [[0.0, 3.5], [20.5, 3.625]], "mark_left": "CURB", "mark_right": "DASHED", "adj_right": [1, True], "types": ["BUS_LANE"],
               "users_bidirectional": ["BUS", "TAXI"]}],
          "signs": [{"id": 10, "elements": [("TrafficSignIDGermany", "MAX_SPEED", ["50"])], "first_occurrence": [2], "position": [21.25, 5.0], "virtual": False}],
          "lights": [{"id": 11, "position": [39.5, 5.25], "cycle": [("RED", 2), ("GREEN", 3), ("YELLOW", 1)], "offset": 2, "active": True, "direction": "ALL"}],
          "intersections": [{"id": 20, "incomings": [{"id": 21, "lanelets": [1], "straight": [2], "right": [], "left": []}], "crossings": [3]}],
          "obstacles": [
              {"role": "static", "id": 30, "type": "PARKED_VEHICLE", "shape": ["rect", 4.5, 2.0, 0.0, 0.0, 0.0], "initial_state": spec.init_state(x=5.125, y=1.75, o=0.03125, v=0.0)},
              {"role": "dynamic", "id": 31, "type": "CAR", "shape": ["rect", 4.5, 2.0, 0.0, 0.0, 0.0], "initial_state": spec.init_state(x=12.5, y=1.75, o=0.0625, v=8.5),
               "initial_signal_state": {"time_step": 0, "horn": False, "indicator_left": True, "indicator_right": False, "braking_lights": False, "hazard_warning_lights": False,
                                        "flashing_blue_lights": False},
               "signal_series": [{"time_step": 1, "horn": False, "indicator_left": True, "indicator_right": False, "braking_lights": True, "hazard_warning_lights": False, "flashing_blue_lights": False},
                                 {"time_step": 2, "horn": True, "indicator_left": False, "indicator_right": False, "braking_lights": True, "hazard_warning_lights": False, "flashing_blue_lights": False}],
               "prediction": {"k": "trajectory", "t0": 1, "shape": ["rect", 4.5, 2.0, 0.0, 0.0, 0.0], "states": [ks(1, 13.375, 1.8125, 0.0625), ks(2, 14.25, 1.875, 0.09375), ks(3, 15.125, 1.9375, 0.125)]}},
              {"role": "dynamic", "id": 32, "type": "BICYCLE", "shape": ["circle", 0.75, 0.0, 0.0], "initial_state": spec.init_state(x=25.0, y=2.5, o=0.25, v=3.0),
               "prediction": {"k": "set", "t0": 1, "occ": [{"t": 1, "shape": ["rect", 3.0, 2.0, 26.0, 2.5, 0.25]}, {"t": 2, "shape": ["circle", 2.0, 27.0, 2.75]}]}},
              {"role": "phantom", "id": 33, "prediction": {"k": "set", "t0": 1, "occ": [{"t": 1, "shape": ["rect", 3.0, 2.0, 35.0, 3.0, 0.125]}, {"t": 2, "shape": ["circle", 1.5, 36.0, 3.0]}]}},
              {"role": "environment", "id": 34, "type": "BUILDING", "shape": ["poly", [[0.0, 8.0], [8.0, 8.0], [8.0, 12.0], [3.0, 14.0], [0.0, 12.0]]]}],
          "pps": [{"id": 100, "initial_state": spec.init_state(x=2.0, y=1.75, o=0.015625, v=10.0),
                   "goal": {"states": [spec.goal_state(t=(5, 10), position=["rect", 4.0, 2.0, 38.0, 2.5, 0.0625], orientation=["aiv", -0.5, 0.5], velocity=["iv", 0.0, 15.0]),
                                       spec.goal_state(t=(8, 12), position=["group", [["poly", [[20.5, 0.125], [30.75, 0.5], [41.0, 1.0], [41.0, 4.5], [30.75, 4.0], [20.5, 3.625]]]]])],
                            "lanelets": {1: [2]}}}]}
    return sp


def lanelet_goal_shape(sp, ids):
    """the ShapeGroup a reader builds for a goal given by lanelets: one polygon per lanelet (right + reversed left)"""
    out = []
    for i in ids:
        l = next(x for x in sp["lanelets"] if x["id"] == i)
        out.append(["poly", [list(p) for p in l["right"]] + [list(p) for p in l["left"]][::-1]])
    return ["group", out]


# --------------------------------------------------------------------------------------------- deviation menu

def find(sp, group, ident):
    return next(x for x in sp[group] if x["id"] == ident)


def menu(fmt):
    """list of (slot, label, fn) for format fmt in {'xml', 'pb'}"""
    from commonroad.common.common_lanelet import LineMarking, LaneletType, RoadUser
    from commonroad.scenario.obstacle import ObstacleType
    from commonroad.scenario.traffic_light import TrafficLightState, TrafficLightDirection
    from commonroad.scenario.scenario import Tag, TimeOfDay, Weather, Underground
    M = []

    def add(slot, label, fn):
        M.append((slot, label, fn))

    # ---- A: enumeration sweeps
    for m in members(LineMarking, fmt, "lineMarking", ("lanelet_pb2", "LineMarkingEnum.LineMarking")):
        add("L1.mark_left", f"L1.mark_left={m}", lambda s, m=m: find(s, "lanelets", 1).__setitem__("mark_left", m))
        add("L2.mark_right", f"L2.mark_right={m}", lambda s, m=m: find(s, "lanelets", 2).__setitem__("mark_right", m))
        add("L2.stop.marking", f"L2.stop_line.marking={m}", lambda s, m=m: find(s, "lanelets", 2)["stop_line"].__setitem__("marking", m))
    for m in members(LaneletType, fmt, "laneletType", ("lanelet_pb2", "LaneletTypeEnum.LaneletType")):
        add("L1.types", f"L1.types=[{m}]", lambda s, m=m: find(s, "lanelets", 1).__setitem__("types", [m]))
        if fmt == "pb" and m == "URBAN":
            add("L3.types", "L3.types=[]", lambda s: find(s, "lanelets", 3).pop("types", None))
        add("L3.types", f"L3.types=[BUS_LANE,{m}]", lambda s, m=m: find(s, "lanelets", 3).__setitem__("types", sorted({"BUS_LANE", m})))
    for m in members(RoadUser, fmt, "vehicleType", ("lanelet_pb2", "RoadUserEnum.RoadUser")):
        add("L1.users_one_way", f"L1.users_one_way=[{m}]", lambda s, m=m: find(s, "lanelets", 1).__setitem__("users_one_way", [m]))
        add("L1.users_bi", f"L1.users_bidirectional=[{m}]", lambda s, m=m: find(s, "lanelets", 1).__setitem__("users_bidirectional", [m]))
        add("L2.users_bi", f"L2.users_bidirectional=[CAR,{m}]", lambda s, m=m: find(s, "lanelets", 2).__setitem__("users_bidirectional", sorted({"CAR", m})))
    pbot = ("obstacle_pb2", "ObstacleTypeEnum.ObstacleType")
    for m in members(ObstacleType, fmt, "obstacleTypeStatic", pbot):
        add("O30.type", f"static.type={m}", lambda s, m=m: find(s, "obstacles", 30).__setitem__("type", m))
    for m in members(ObstacleType, fmt, "obstacleTypeDynamic", pbot):
        add("O31.type", f"dynamic.type={m}", lambda s, m=m: find(s, "obstacles", 31).__setitem__("type", m))
        add("O32.type", f"dynamic-set.type={m}", lambda s, m=m: find(s, "obstacles", 32).__setitem__("type", m))
    for m in members(ObstacleType, fmt, "obstacleTypeEnvironment", pbot):
        add("O34.type", f"environment.type={m}", lambda s, m=m: find(s, "obstacles", 34).__setitem__("type", m))
    for m in members(TrafficLightState, fmt, "trafficLightColor", ("traffic_light_pb2", "TrafficLightStateEnum.TrafficLightState")):
        add("T11.c0", f"light.cycle[0].color={m}", lambda s, m=m: find(s, "lights", 11)["cycle"].__setitem__(0, (m, 2)))
        add("T11.c2", f"light.cycle[2].color={m}", lambda s, m=m: find(s, "lights", 11)["cycle"].__setitem__(2, (m, 4)))
    for m in members(TrafficLightDirection, fmt, "direction", ("traffic_light_pb2", "TrafficLightDirectionEnum.TrafficLightDirection")):
        add("T11.direction", f"light.direction={m}", lambda s, m=m: find(s, "lights", 11).__setitem__("direction", m))
    for m in members(Tag, fmt, "tag", ("scenario_tags_pb2", "TagEnum.Tag")):
        add("tags", f"tags=[{m}]", lambda s, m=m: s.__setitem__("tags", [m]))
    for m in members(TimeOfDay, fmt, "timeOfDay", ("location_pb2", "TimeOfDayEnum.TimeOfDay")):
        add("env.tod", f"time_of_day={m}", lambda s, m=m: s["location"]["env"].__setitem__("time_of_day", m))
    for m in members(Weather, fmt, "weather", ("location_pb2", "WeatherEnum.Weather")):
        add("env.weather", f"weather={m}", lambda s, m=m: s["location"]["env"].__setitem__("weather", m))
    for m in members(Underground, fmt, "underground", ("location_pb2", "UndergroundEnum.Underground")):
        add("env.underground", f"underground={m}", lambda s, m=m: s["location"]["env"].__setitem__("underground", m))
    from commonroad.scenario.traffic_sign import TrafficSignIDCountries
    code_of = {}
    for code, cls in TrafficSignIDCountries.items():
        code_of.setdefault(cls.__name__, code)
    code_of["TrafficSignIDGermany"] = "DEU"
    for cname, m in sign_members(fmt):
        def setsign(s, cname=cname, m=m):
            find(s, "signs", 10).__setitem__("elements", [(cname, m, ["30"] if "SPEED" in m else [])])
            if fmt == "xml":
                # the XML format stores only the sign id string; the reader resolves it with the enum of the scenario's country
                if cname not in code_of:
                    return False
                s["sid"]["country"] = code_of[cname]
        add("S10.el0", f"sign.element={cname}.{m}", setsign)

    # ---- B: optional elements
    add("L1.adj_left", "L1.adj_left=None", lambda s: (find(s, "lanelets", 1).__setitem__("adj_left", None), find(s, "lanelets", 3).__setitem__("adj_right", None)))
    add("L1.adj_left", "L1.adj_left=opposite", lambda s: (find(s, "lanelets", 1).__setitem__("adj_left", [3, False]), find(s, "lanelets", 3).__setitem__("adj_left", [1, False]),
                                                         find(s, "lanelets", 3).__setitem__("adj_right", None)))
    add("L2.adj_right", "L2.adj_right=(3,opposite)", lambda s: find(s, "lanelets", 2).__setitem__("adj_right", [3, False]))
    add("L2.stop", "L2.stop_line=None", lambda s: find(s, "lanelets", 2).__setitem__("stop_line", None))
    add("L2.stop.points", "L2.stop_line.points=None", lambda s: find(s, "lanelets", 2)["stop_line"].update(start=None, end=None))
    add("L2.stop.refs", "L2.stop_line.refs=[]", lambda s: find(s, "lanelets", 2)["stop_line"].update(sign_ref=[], light_ref=[]))
    add("L2.stop.refs", "L2.stop_line.sign_ref-only", lambda s: find(s, "lanelets", 2)["stop_line"].update(light_ref=[]))
    add("L1.stop", "L1.stop_line-added", lambda s: find(s, "lanelets", 1).__setitem__("stop_line", {"start": [19.5, 0.0], "end": [19.5, 3.5], "marking": "DASHED", "sign_ref": [], "light_ref": []}))
    add("L1.pred", "L1.pred+succ-multi", lambda s: (find(s, "lanelets", 1).__setitem__("succ", [2, 3]), find(s, "lanelets", 3).__setitem__("pred", [1, 2]), find(s, "lanelets", 2).__setitem__("succ", [3])))
    add("S10.virtual", "sign.virtual=True", lambda s: find(s, "signs", 10).__setitem__("virtual", True))
    add("S10.values", "sign.additional_values=2", lambda s: find(s, "signs", 10).__setitem__("elements", [("TrafficSignIDGermany", "MAX_SPEED", ["50", "km/h"])]))
    add("S10.values", "sign.additional_values=0", lambda s: find(s, "signs", 10).__setitem__("elements", [("TrafficSignIDGermany", "STOP", [])]))
    add("S10.elements", "sign.elements=2", lambda s: find(s, "signs", 10).__setitem__("elements", [("TrafficSignIDGermany", "MAX_SPEED", ["50"]), ("TrafficSignIDGermany", "NO_OVERTAKING_START", [])]))
    add("T11.offset", "light.offset=0", lambda s: find(s, "lights", 11).__setitem__("offset", 0))
    for off in (1, 5, 6, 12):
        add("T11.offset", f"light.offset={off}", lambda s, off=off: find(s, "lights", 11).__setitem__("offset", off))
    sig = lambda t, **kw: dict({"time_step": t, "horn": False, "indicator_left": False, "indicator_right": False, "braking_lights": False, "hazard_warning_lights": False,
                                "flashing_blue_lights": False}, **kw)
    add("O32.signals", "set-based-obstacle.signal_series+initial_signal_state", lambda s: find(s, "obstacles", 32).update(
        initial_signal_state=sig(0, indicator_right=True), signal_series=[sig(1, braking_lights=True), sig(2, horn=True, hazard_warning_lights=True)]))
    add("O32.signals", "set-based-obstacle.signal_series-only", lambda s: find(s, "obstacles", 32).update(signal_series=[sig(1, braking_lights=True), sig(2, indicator_left=True)]))
    add("T11.offset", "light.offset=7", lambda s: find(s, "lights", 11).__setitem__("offset", 7))
    add("T11.active", "light.active=False", lambda s: find(s, "lights", 11).__setitem__("active", False))
    if fmt == "pb":     # the 2020a XML schema requires a cycle with at least one element; the .proto has a repeated (possibly empty) element list
        add("T11.cycle", "light.cycle=no-elements", lambda s: find(s, "lights", 11).update(cycle=[]))
        add("T11.cycle", "light.cycle=no-elements,active=True(setter)", lambda s: find(s, "lights", 11).update(cycle=[], active_set_later=True))
    add("T11.active", "light.active=False-then-True(setter)", lambda s: find(s, "lights", 11).update(active=False, active_set_later=True))
    add("T11.cycle", "light.cycle=1-element", lambda s: find(s, "lights", 11).__setitem__("cycle", [("GREEN", 5)]))
    add("I20.crossings", "intersection.crossings=[]", lambda s: find(s, "intersections", 20).__setitem__("crossings", []))
    add("I20.incomings", "intersection.incomings=2+left_of", lambda s: find(s, "intersections", 20)["incomings"].append({"id": 22, "lanelets": [3], "right": [2], "straight": [], "left": [], "left_of": 21}))
    add("I20.succ", "incoming.successors=all-three", lambda s: find(s, "intersections", 20)["incomings"][0].update(right=[3], straight=[2], left=[2, 3]))
    add("loc", "location=None", lambda s: s.__setitem__("location", None))
    add("loc.geo", "location.geo=None", lambda s: s["location"].__setitem__("geo", None))
    add("loc.geo", "location.geo=identity-transformation", lambda s: s["location"].__setitem__("geo", {"ref": "+proj=utm +zone=32", "x": 0.0, "y": 0.0, "rot": 0.0, "scale": 1.0}))
    add("loc.geo", "location.geo=reference-only(defaults)", lambda s: s["location"].__setitem__("geo", {"ref": "+proj=utm +zone=32"}))
    add("loc.env", "location.env=None", lambda s: s["location"].__setitem__("env", None))
    add("env.time", "environment.time=with-day-month-year", lambda s: s["location"]["env"].__setitem__("time", [12, 30, 2, 3, 2020]))
    add("env.time", "environment.time=with-year-only", lambda s: s["location"]["env"].__setitem__("time", [23, 59, None, None, 2031]))
    # a location that keeps the "unknown place" defaults for name id and GPS position but carries a geo transformation and an environment
    add("loc.ids", "location.ids=defaults(unknown-place)", lambda s: [s["location"].pop(k_, None) for k_ in ("geo_name_id", "lat", "lon")] and None)
    # a traffic light that no lanelet lists: referenced from a stop line only / not referenced at all (lights, unlike signs, need no lanelet reference)
    add("L2.refs", "L2.light-only-in-stop-line(no-lanelet-lists-it)", lambda s: find(s, "lanelets", 2).update(lights=[]))
    add("T12", "second-light-referenced-by-nothing", lambda s: s["lights"].append({"id": 12, "position": [35.0, 5.5], "cycle": [("GREEN", 4), ("RED", 3)], "offset": 1, "active": True, "direction": "STRAIGHT"}))
    # a goal state whose entry in the goal-lanelet table exists but is empty (what a lookup in a table that was read from a file leaves behind)
    add("PP.goal.lanelets", "goal.lanelets={0:[],1:[2]}", lambda s: s["pps"][0]["goal"].__setitem__("lanelets", {0: [], 1: [2]}))
    # an occupancy whose time interval has equal bounds (it stays an interval), and negative zeros in an initial state
    add("O32.occ1.t", "occupancy.time_step=degenerate-interval", lambda s: find(s, "obstacles", 32)["prediction"]["occ"][1].__setitem__("t", ["iv", 2, 2]))
    add("dynamic.init.negzero", "dynamic.initial_state.{acceleration,yaw_rate,slip_angle}=-0.0", lambda s: find(s, "obstacles", 31)["initial_state"]["attrs"].update(acceleration=-0.0, yaw_rate=-0.0, slip_angle=-0.0))
    add("PP.init.negzero", "planning-problem.initial_state.{orientation,yaw_rate}=-0.0", lambda s: s["pps"][0]["initial_state"]["attrs"].update(orientation=-0.0, yaw_rate=-0.0))
    add("sid", "scenario_id=map-only", lambda s: s.__setitem__("sid", {"country": "ZAM", "map": "Tjunction", "map_id": 3}))
    add("sid", "scenario_id=coop-multi", lambda s: s.__setitem__("sid", {"coop": True, "country": "DEU", "map": "A9", "map_id": 33, "conf": 2, "beh": "S", "pred": [1, 3]}))
    for f in ("horn", "indicator_left", "indicator_right", "braking_lights", "hazard_warning_lights", "flashing_blue_lights"):
        add(f"O31.sig0.{f}", f"initial_signal_state.{f}=flip", lambda s, f=f: find(s, "obstacles", 31)["initial_signal_state"].__setitem__(f, not find(s, "obstacles", 31)["initial_signal_state"][f]))
        add(f"O31.sig1.{f}", f"signal_series[0].{f}=flip", lambda s, f=f: find(s, "obstacles", 31)["signal_series"][0].__setitem__(f, not find(s, "obstacles", 31)["signal_series"][0][f]))
        add(f"O31.sig0.{f}", f"initial_signal_state.{f}=unset", lambda s, f=f: find(s, "obstacles", 31)["initial_signal_state"].pop(f))
    add("O31.sig0", "initial_signal_state=None", lambda s: find(s, "obstacles", 31).__setitem__("initial_signal_state", None))
    add("O31.sigs", "signal_series=None", lambda s: find(s, "obstacles", 31).__setitem__("signal_series", None))
    add("O31.sigs", "signal_series=1", lambda s: find(s, "obstacles", 31).__setitem__("signal_series", find(s, "obstacles", 31)["signal_series"][:1]))
    if fmt == "pb":
        add("O30.sig0", "static.initial_signal_state", lambda s: find(s, "obstacles", 30).__setitem__("initial_signal_state", {"time_step": 0, "horn": True, "hazard_warning_lights": True}))
        add("O30.sigs", "static.signal_series", lambda s: find(s, "obstacles", 30).__setitem__("signal_series", [{"time_step": 1, "hazard_warning_lights": True, "braking_lights": False}]))
        add("O30.defaults", "static.signal-args-omitted", lambda s: (find(s, "obstacles", 30).pop("initial_signal_state", None), find(s, "obstacles", 30).pop("signal_series", None)))
        add("O31.defaults", "dynamic.signal-args-omitted", lambda s: (find(s, "obstacles", 31).pop("initial_signal_state", None), find(s, "obstacles", 31).pop("signal_series", None)))
        add("O64", "dynamic-without-prediction-added", lambda s: s["obstacles"].append({"role": "dynamic", "id": 64, "type": "PEDESTRIAN", "shape": ["circle", 0.4, 0.0, 0.0],
                                                                                       "initial_state": spec.init_state(x=3.0, y=6.0, o=1.5, v=1.25)}))

    # ---- C: shapes
    shapes_local = [["rect", 5.25, 2.125, 0.0, 0.0, 0.0], ["circle", 1.125, 0.0, 0.0], ["poly", [[-2.0, -1.0], [2.0, -1.0], [2.5, 0.0], [2.0, 1.0], [-2.0, 1.0]]],
                    ["group", [["rect", 4.0, 2.0, 0.0, 0.0, 0.0], ["circle", 0.5, 0.0, 0.0]]]]
    shapes_static = shapes_local + [["rect", 4.0, 2.0, 0.5, -0.25, 0.375], ["circle", 1.0, 0.75, 0.5], ["group", [["rect", 2.0, 1.0, 1.0, 0.0, 0.125], ["poly", [[-2.0, 0.0], [-1.0, 0.0], [-1.5, 1.0]]]]]]
    for i, sh in enumerate(shapes_static):
        add("O30.shape", f"static.shape={sh[0]}#{i}", lambda s, sh=sh: find(s, "obstacles", 30).__setitem__("shape", copy.deepcopy(sh)))
    for i, sh in enumerate(shapes_local):
        add("O31.shape", f"dynamic.shape={sh[0]}#{i}", lambda s, sh=sh: (find(s, "obstacles", 31).__setitem__("shape", copy.deepcopy(sh)), find(s, "obstacles", 31)["prediction"].__setitem__("shape", copy.deepcopy(sh))))
    glob = [["rect", 3.0, 2.0, 26.0, 2.5, 0.25], ["circle", 2.0, 27.0, 2.75], ["poly", [[25.0, 1.0], [28.0, 1.5], [27.0, 4.0]]], ["group", [["rect", 1.0, 1.0, 26.0, 2.0, 0.0], ["circle", 0.5, 28.0, 3.0]]]]
    for i, sh in enumerate(glob):
        add("O32.occ0.shape", f"occupancy.shape={sh[0]}", lambda s, sh=sh: find(s, "obstacles", 32)["prediction"]["occ"][0].__setitem__("shape", copy.deepcopy(sh)))
        add("O33.occ1.shape", f"phantom.occupancy.shape={sh[0]}", lambda s, sh=sh: find(s, "obstacles", 33)["prediction"]["occ"][1].__setitem__("shape", copy.deepcopy(sh)))
        add("O34.shape", f"environment.shape={sh[0]}", lambda s, sh=sh: find(s, "obstacles", 34).__setitem__("shape", copy.deepcopy(sh)))
        # XSD positionInterval: several shapes of ONE kind; protobuf: any shape group
        gsh = sh if (sh[0] != "group" or fmt == "pb") else ["group", [["rect", 1.0, 1.0, 26.0, 2.0, 0.0], ["rect", 2.0, 1.5, 29.0, 3.0, 0.25]]]
        add("PP.goal0.position", f"goal.position={sh[0]}", lambda s, gsh=gsh: s["pps"][0]["goal"]["states"][0]["attrs"].__setitem__("position", copy.deepcopy(gsh)))
    regions = [["rect", 2.0, 1.0, 12.5, 1.75, 0.125], ["circle", 0.75, 12.5, 1.75], ["poly", [[11.5, 1.0], [13.5, 1.0], [13.0, 2.5]]]]
    for i, rg in enumerate(regions):
        add("O31.init.position", f"dynamic.initial_state.position={rg[0]}-region", lambda s, rg=rg: find(s, "obstacles", 31)["initial_state"]["attrs"].__setitem__("position", copy.deepcopy(rg)))
        add("O31.traj1.position", f"trajectory[1].position={rg[0]}-region", lambda s, rg=rg: find(s, "obstacles", 31)["prediction"]["states"][1]["attrs"].__setitem__("position", copy.deepcopy(rg)))
        add("O30.init.position", f"static.initial_state.position={rg[0]}-region", lambda s, rg=rg: find(s, "obstacles", 30)["initial_state"]["attrs"].__setitem__("position", copy.deepcopy(rg)))
    # near-twins: a second shape that agrees with another shape of the same scenario to within 1 ulp (equal under the library's 10-decimal
    # Shape.__eq__/__hash__, not bit-identical): whatever is keyed on shape equality must still store each shape's own numbers
    up = lambda x: math.nextafter(x, math.inf)
    add("O33.occ0.shape", "phantom.occupancy[0]=ulp-twin-of-occupancy[0]", lambda s: find(s, "obstacles", 33)["prediction"]["occ"][0].__setitem__("shape", ["rect", 3.0, 2.0, up(26.0), 2.5, 0.25]))
    add("O33.occ1.shape", "phantom.occupancy[1]=ulp-twin-of-occupancy[1]", lambda s: find(s, "obstacles", 33)["prediction"]["occ"][1].__setitem__("shape", ["circle", 2.0, 27.0, up(2.75)]))
    add("O34.shape", "environment.shape=ulp-twin-of-goal-polygon", lambda s: find(s, "obstacles", 34).__setitem__(
        "shape", ["poly", [[20.5, up(0.125)], [30.75, 0.5], [41.0, 1.0], [41.0, 4.5], [30.75, 4.0], [20.5, 3.625]]]))
    add("O31.pred.shape", "trajectory-prediction.shape=ulp-twin-of-obstacle-shape", lambda s: find(s, "obstacles", 31)["prediction"].__setitem__("shape", ["rect", 4.5, 2.0, up(0.0), 0.0, 0.0]))
    # shared instances: the SAME shape object used in two places of one scenario (a writer that caches per object, or moves nodes, must still
    # write both places)
    def share(s, key, shape, places):
        for setter in places:
            setter(s, ["ref", key, copy.deepcopy(shape)])
    add("alias", "shared-instance:occupancy-shapes", lambda s: share(s, "A", ["rect", 3.0, 2.0, 26.0, 2.5, 0.25], [
        lambda s, v: find(s, "obstacles", 32)["prediction"]["occ"][0].__setitem__("shape", v), lambda s, v: find(s, "obstacles", 33)["prediction"]["occ"][0].__setitem__("shape", v),
        lambda s, v: find(s, "obstacles", 33)["prediction"]["occ"][1].__setitem__("shape", v)]))
    add("alias", "shared-instance:obstacle-shapes", lambda s: share(s, "B", ["rect", 4.5, 2.0, 0.0, 0.0, 0.0], [
        lambda s, v: find(s, "obstacles", 30).__setitem__("shape", v), lambda s, v: find(s, "obstacles", 31).__setitem__("shape", v),
        lambda s, v: find(s, "obstacles", 31)["prediction"].__setitem__("shape", v)]))
    add("alias", "shared-instance:goal-position+environment-shape+uncertain-position", lambda s: share(s, "C", ["rect", 4.0, 2.0, 38.0, 2.5, 0.0625], [
        lambda s, v: s["pps"][0]["goal"]["states"][0]["attrs"].__setitem__("position", v), lambda s, v: find(s, "obstacles", 34).__setitem__("shape", v),
        lambda s, v: find(s, "obstacles", 31)["prediction"]["states"][1]["attrs"].__setitem__("position", v)]))
    # a lanelet far from the origin whose stop line lies 2 cm before its end (closer than 1e-5 of the coordinate, farther than any precision >= 2)
    add("L4", "lanelet-at-x=5000-with-stop-line-2cm-before-its-end", lambda s: s["lanelets"].append(
        {"id": 4, "left": [[5000.0, 3.5], [5040.0, 3.5]], "right": [[5000.0, 0.0], [5040.0, 0.0]], "types": ["URBAN"],
         "stop_line": {"start": [5039.98, 3.5], "end": [5039.98, 0.0], "marking": "SOLID", "sign_ref": [], "light_ref": []}}))
    add("L4", "lanelet-at-y=-80000-with-stop-line-20cm-before-its-end", lambda s: s["lanelets"].append(
        {"id": 4, "left": [[3.5, -80000.0], [3.5, -80040.0]], "right": [[0.0, -80000.0], [0.0, -80040.0]], "types": ["URBAN"],
         "stop_line": {"start": [0.0, -80039.8], "end": [3.5, -80039.8], "marking": "DASHED", "sign_ref": [], "light_ref": []}}))
    add("O32.occ1.t", "occupancy.time_step=interval", lambda s: find(s, "obstacles", 32)["prediction"]["occ"][1].__setitem__("t", ["iv", 2, 4]))
    add("O33.occ", "phantom.occupancies=1", lambda s: find(s, "obstacles", 33)["prediction"].__setitem__("occ", find(s, "obstacles", 33)["prediction"]["occ"][:1]))

    # ---- D: states
    init_opt = ["velocity", "acceleration", "yaw_rate", "slip_angle"]
    for who, getter in (("dynamic", lambda s: find(s, "obstacles", 31)["initial_state"]["attrs"]), ("static", lambda s: find(s, "obstacles", 30)["initial_state"]["attrs"])):
        for mask in range(1, 16):
            drop = [a for j, a in enumerate(init_opt) if mask >> j & 1]
            add(f"{who}.init.unset", f"{who}.initial_state.unset={'+'.join(drop)}", lambda s, getter=getter, drop=drop: [getter(s).pop(a) for a in drop])
        for a in ["orientation"] + init_opt:
            iv = ["aiv", -0.25, 0.5] if a == "orientation" else ["iv", -1.5, 2.25]
            add(f"{who}.init.{a}", f"{who}.initial_state.{a}=interval", lambda s, getter=getter, a=a, iv=iv: getter(s).__setitem__(a, list(iv)))
    traj_classes = {
        "STState": {"steering_angle": 0.02, "yaw_rate": 0.03, "slip_angle": -0.01},
        "ExtendedPMState": {"acceleration": 0.5},
        "MBState": {"steering_angle": 0.02, "yaw_rate": 0.03, "roll_angle": 0.001, "roll_rate": 0.002, "pitch_angle": 0.003, "pitch_rate": 0.004, "velocity_y": 0.1, "position_z": 0.2, "velocity_z": 0.05,
                    "roll_angle_front": 0.011, "roll_rate_front": 0.012, "velocity_y_front": 0.013, "position_z_front": 0.014, "velocity_z_front": 0.015, "roll_angle_rear": 0.021, "roll_rate_rear": 0.022,
                    "velocity_y_rear": 0.023, "position_z_rear": 0.024, "velocity_z_rear": 0.025, "left_front_wheel_angular_speed": 30.0, "right_front_wheel_angular_speed": 31.0,
                    "left_rear_wheel_angular_speed": 32.0, "right_rear_wheel_angular_speed": 33.0, "delta_y_f": 0.001, "delta_y_r": 0.002},
        "CustomState": {"acceleration": 0.5, "jerk": 0.125}}
    if fmt == "pb":
        traj_classes["PMState"] = "pm"
        traj_classes["InputLikeCustom"] = None

    def set_traj_class(s, cls, extra):
        sts = find(s, "obstacles", 31)["prediction"]["states"]
        for st in sts:
            a = st["attrs"]
            if extra == "pm":
                st["cls"] = "PMState"
                st["attrs"] = {"time_step": a["time_step"], "position": a["position"], "velocity": 4.0 * math.cos(a["orientation"]), "velocity_y": 4.0 * math.sin(a["orientation"])}
            else:
                st["cls"] = cls
                na = {"time_step": a["time_step"], "position": a["position"], "orientation": a["orientation"], "velocity": a["velocity"]}
                na.update(extra)
                st["attrs"] = na
    # every optional state attribute on its own, on a state that matches no specific state class (the readers' generic path)
    single = dict(traj_classes["MBState"]); single.update({"acceleration": 0.5, "jerk": 0.125, "curvature": 0.01, "curvature_rate": 0.002, "slip_angle": -0.01})
    if fmt == "xml":
        single["jounce"] = 0.25         # in the 2020a schema, not in the .proto
    for a, v in sorted(single.items()):
        if a in ("steering_angle",):
            continue        # base attributes + steering angle is KSState
        add("O31.traj.cls", f"trajectory.state=Custom+{a}", lambda s, a=a, v=v: set_traj_class(s, "CustomState", {a: v}))
    for cls, extra in traj_classes.items():
        if extra is None:
            continue
        add("O31.traj.cls", f"trajectory.state_class={cls}", lambda s, cls=cls, extra=extra: set_traj_class(s, cls, extra))
    for a in ("orientation", "velocity", "steering_angle"):
        iv = ["aiv", -0.125, 0.375] if a == "orientation" else ["iv", 3.5, 4.75]
        add(f"O31.traj0.{a}", f"trajectory[0].{a}=interval", lambda s, a=a, iv=iv: find(s, "obstacles", 31)["prediction"]["states"][0]["attrs"].__setitem__(a, list(iv)))
    for a, v in (("velocity", 3.5), ("steering_angle", 0.02)):
        add(f"O31.traj0.{a}", f"trajectory[0].{a}=degenerate-interval", lambda s, a=a, v=v: find(s, "obstacles", 31)["prediction"]["states"][0]["attrs"].__setitem__(a, ["iv", v, v]))
        add(f"O31.traj0.{a}", f"trajectory[0].{a}=narrow-interval", lambda s, a=a, v=v: find(s, "obstacles", 31)["prediction"]["states"][0]["attrs"].__setitem__(a, ["iv", v + 0.01, v + 0.05]))
    add("O31.traj0.orientation", "trajectory[0].orientation=degenerate-interval", lambda s: find(s, "obstacles", 31)["prediction"]["states"][0]["attrs"].__setitem__("orientation", ["aiv", 0.0625, 0.0625]))
    add("PP.goal0.vnarrow", "goal[0].velocity=narrow-interval", lambda s: s["pps"][0]["goal"]["states"][0]["attrs"].__setitem__("velocity", ["iv", 10.0002, 10.0007]))
    add("PP.goal0.vnarrow", "goal[0].orientation=degenerate-interval", lambda s: s["pps"][0]["goal"]["states"][0]["attrs"].__setitem__("orientation", ["aiv", 0.25, 0.25]))
    # orientation intervals whose ends sit on / next to the ends of the admissible range [-2pi, 2pi] or that span almost a full turn (a written
    # value rounded outward leaves the range, and the AngleInterval constructor then shifts the whole interval by a turn)
    import math as _m
    for lab, lo, hi in (("[pi,2pi]", _m.pi, 2 * _m.pi), ("[-2pi,-pi]", -2 * _m.pi, -_m.pi), ("[-3.14159,3.14159]", -3.14159, 3.14159), ("[2pi-0.3,2pi-0.00004]", 2 * _m.pi - 0.3, 2 * _m.pi - 0.00004),
                        ("[-2pi+0.00004,-6]", -2 * _m.pi + 0.00004, -6.0), ("[0,6.28318]", 0.0, 6.28318)):
        add("PP.goal0.vnarrow", f"goal[0].orientation={lab}", lambda s, lo=lo, hi=hi: s["pps"][0]["goal"]["states"][0]["attrs"].__setitem__("orientation", ["aiv", lo, hi]))
        add("O31.traj0.orientation", f"trajectory[0].orientation={lab}", lambda s, lo=lo, hi=hi: find(s, "obstacles", 31)["prediction"]["states"][0]["attrs"].__setitem__("orientation", ["aiv", lo, hi]))
    add("dynamic.init.velocity", "dynamic.initial_state.velocity=degenerate-interval", lambda s: find(s, "obstacles", 31)["initial_state"]["attrs"].__setitem__("velocity", ["iv", 8.5, 8.5]))
    add("L2.refs", "L2.sign+light-only-in-stop-line(refs-on-L1)", lambda s: (find(s, "lanelets", 2).update(signs=[], lights=[]), find(s, "lanelets", 1).update(signs=[10], lights=[11])))
    add("L2.refs", "L2.light-only-in-stop-line(ref-on-L3)", lambda s: (find(s, "lanelets", 2).update(lights=[]), find(s, "lanelets", 3).update(lights=[11])))
    add("O31.traj.len", "trajectory.len=1", lambda s: find(s, "obstacles", 31)["prediction"].__setitem__("states", find(s, "obstacles", 31)["prediction"]["states"][:1]))
    add("O31.traj.len", "trajectory.starts-at-3", lambda s: [st["attrs"].__setitem__("time_step", st["attrs"]["time_step"] + 2) for st in find(s, "obstacles", 31)["prediction"]["states"]] and
        find(s, "obstacles", 31)["prediction"].__setitem__("t0", 3))
    for sub in (["position"], ["orientation"], ["velocity"], ["position", "velocity"], []):
        def setgoal(s, sub=sub):
            a = s["pps"][0]["goal"]["states"][0]["attrs"]
            for k in ("position", "orientation", "velocity"):
                if k not in sub:
                    a.pop(k, None)
        add("PP.goal0.attrs", f"goal[0].constrains={'+'.join(sub) or 'time-only'}", setgoal)
    add("PP.goal.lanelets", "goal.lanelets=None(shape-goal)", lambda s: (s["pps"][0]["goal"].__setitem__("lanelets", None),
                                                                       s["pps"][0]["goal"]["states"][1]["attrs"].__setitem__("position", ["circle", 3.0, 30.0, 2.0])))
    add("PP.goal.lanelets", "goal.lanelets=two-lanelets", lambda s: (s["pps"][0]["goal"].__setitem__("lanelets", {1: [2, 1]}),
                                                                    s["pps"][0]["goal"]["states"][1]["attrs"].__setitem__("position", lanelet_goal_shape(s, [2, 1]))))
    add("PP.goal.lanelets", "goal.lanelets=both-goal-states", lambda s: (s["pps"][0]["goal"].__setitem__("lanelets", {0: [1], 1: [2]}),
                                                                        s["pps"][0]["goal"]["states"][0]["attrs"].__setitem__("position", lanelet_goal_shape(s, [1]))))
    add("PP.goal.lanelets", "goal.lanelets=first-goal-state-only", lambda s: (s["pps"][0]["goal"].__setitem__("lanelets", {0: [1]}),
                                                                             s["pps"][0]["goal"]["states"][0]["attrs"].__setitem__("position", lanelet_goal_shape(s, [1])),
                                                                             s["pps"][0]["goal"]["states"][1]["attrs"].__setitem__("position", ["circle", 3.0, 30.0, 2.0])))
    add("PP.goal.n", "goal.states=1", lambda s: (s["pps"][0]["goal"].__setitem__("states", s["pps"][0]["goal"]["states"][:1]), s["pps"][0]["goal"].__setitem__("lanelets", None)))
    add("PP.init.acc", "pp.initial_state.acceleration=unset", lambda s: s["pps"][0]["initial_state"]["attrs"].pop("acceleration"))
    add("PP.second", "second-planning-problem", lambda s: s["pps"].append({"id": 101, "initial_state": spec.init_state(x=3.0, y=5.25, o=0.0, v=5.0),
                                                                           "goal": {"states": [spec.goal_state(t=(3, 6), velocity=["iv", 1.0, 2.0])], "lanelets": None}}))

    # ---- E: value alphabet on representative quantities
    for i, v in enumerate(REALS):
        fv = float(v) if not isinstance(v, int) else v
        add("L1.left0.x", f"L1.left[1].x={v!r}", lambda s, fv=fv: find(s, "lanelets", 1)["left"][1].__setitem__(0, fv if 0 < fv < 20 else 10.25 + (fv % 1)))
        add("O31.init.x", f"dynamic.initial_state.position.x={v!r}", lambda s, fv=fv: find(s, "obstacles", 31)["initial_state"]["attrs"]["position"].__setitem__(0, fv))
        add("O31.init.o", f"dynamic.initial_state.orientation={v!r}", lambda s, fv=fv: find(s, "obstacles", 31)["initial_state"]["attrs"].__setitem__("orientation", math.fmod(fv, 6.0)))
        add("O31.traj1.v", f"trajectory[1].velocity={v!r}", lambda s, fv=fv: find(s, "obstacles", 31)["prediction"]["states"][1]["attrs"].__setitem__("velocity", fv))
        add("O30.init.y", f"static.initial_state.position.y={v!r}", lambda s, fv=fv: find(s, "obstacles", 30)["initial_state"]["attrs"]["position"].__setitem__(1, fv))
        add("S10.pos.x", f"sign.position.x={v!r}", lambda s, fv=fv: find(s, "signs", 10)["position"].__setitem__(0, fv))
        add("T11.pos.y", f"light.position.y={v!r}", lambda s, fv=fv: find(s, "lights", 11)["position"].__setitem__(1, fv))
        add("O32.occ1.cx", f"occupancy[1].circle.center.x={v!r}", lambda s, fv=fv: find(s, "obstacles", 32)["prediction"]["occ"][1]["shape"].__setitem__(2, fv))
        add("PP.init.v", f"pp.initial_state.velocity={v!r}", lambda s, fv=fv: s["pps"][0]["initial_state"]["attrs"].__setitem__("velocity", fv))
        add("PP.goal0.v", f"goal[0].velocity.end={v!r}", lambda s, fv=fv: s["pps"][0]["goal"]["states"][0]["attrs"].__setitem__("velocity", ["iv", min(-8.0, fv), max(fv, -8.0)]))
        add("L2.stop.x", f"L2.stop_line.start.x={v!r}", lambda s, fv=fv: find(s, "lanelets", 2)["stop_line"]["start"].__setitem__(0, fv))
    return M


def conflicts(a, b):
    """slots that cannot be combined meaningfully"""
    pre = lambda x: x.split(".")[0] + "." + (x.split(".")[1] if "." in x else "")
    if {a, b} == {"O31.shape", "O31.pred.shape"}:
        return True       # the XML format stores ONE shape per dynamic obstacle: a prediction shape of another kind than the obstacle's is not expressible
    if "alias" in (a, b):
        o = b if a == "alias" else a
        return o.startswith("O3") or o.startswith("PP.goal") or o == "alias"       # the shared-instance specs are not plain shape lists
    if a.startswith("O31.traj") and b.startswith("O31.traj"):
        return ("cls" in a or "len" in a or "cls" in b or "len" in b) and a != b
    if a.startswith("PP.goal") and b.startswith("PP.goal"):
        return True
    if {a, b} <= {"loc", "loc.geo", "loc.env", "env.tod", "env.weather", "env.underground", "env.time", "loc.ids"} and ("loc" in (a, b) or ("loc.env" in (a, b) and (a.startswith("env.") or b.startswith("env.")))):
        return True
    if a.startswith("L2.stop") and b.startswith("L2.stop") and ("L2.stop" in (a, b)):
        return True
    if a.split(".")[0] == b.split(".")[0] and ("init.unset" in a + b) and ("init." in a and "init." in b):
        return True
    if a.startswith("O31.sig") and b.startswith("O31.sig"):
        return a.split(".")[1] == b.split(".")[1] or a in ("O31.sig0", "O31.sigs") or b in ("O31.sig0", "O31.sigs") or "defaults" in a + b
    if "defaults" in a and b.startswith(a.split(".")[0] + ".sig") or "defaults" in b and a.startswith(b.split(".")[0] + ".sig"):
        return True
    if a.startswith("O31.init.position") and b == "O31.init.x" or b.startswith("O31.init.position") and a == "O31.init.x":
        return True
    if a.startswith("O30.init.position") and b == "O30.init.y" or b.startswith("O30.init.position") and a == "O30.init.y":
        return True
    if {a, b} == {"O32.occ0.shape", "O32.occ1.cx"} or {a, b} == {"O32.occ1.t", "O32.occ1.cx"}:
        return False
    if a.startswith("T11.c") and b == "T11.cycle" or b.startswith("T11.c") and a == "T11.cycle":
        return True
    if {a, b} == {"S10.el0", "sid"} or ("PP.goal.lanelets" in (a, b) and ("L1.left0.x" in (a, b))):
        return True
    if a.startswith("S10.") and b.startswith("S10.") and ("el0" in a + b or "values" in a + b or "elements" in a + b) and not ("pos" in a + b or "virtual" in a + b):
        return True
    return False
