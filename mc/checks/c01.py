"""C01 - XML write->read reproduces scenario and planning problems.  E2-dev x configuration (decimal precision).

Same engine and spec library as C02 with the XML writer/reader and the menu restricted to members the shipped 2020a XSD can
express (enumerations parsed from the XSD with lxml).  Reals must agree within 10^-d (d = decimal precision of the writer),
discrete data exactly.
"""
import contextlib
import copy
import os
import tempfile

from mc.core import Result
from mc import roundtrip, spec, speclib
from mc.checks import c02

PROPERTY = "C01"
FMT = "xml"
RULE = ("all specs within k deviations of the base scenario x decimal precisions: quick k<=1 x d in {1,4,12} + 1/16 of all pairs at d=4; thorough "
        "k<=1 x d=1..12 + all pairs at d=4 + 1/8 of all pairs at d=2. Menu restricted to XSD-expressible members. non-trivial = specs with "
        ">=1 deviation; distinct (deviation subset, precision)")
ASSUMPTIONS = c02.ASSUMPTIONS + ["a stop line written without points reads back with the end points of its lanelet (reader convention), sign first_occurrence "
                                 "is not part of the 2020a schema; both are applied to the expected side",
                                 "tolerance 10^-d + 4e-16*|x| (float_to_str truncates; the second term absorbs the binary representation of the decimal string)"]


def precisions(tier):
    return [1, 4, 12] if tier == "quick" else list(range(1, 13))


def describe(tier):
    m = speclib.menu(FMT)
    return {"menu_size": len(m), "slots": len({x[0] for x in m}), "precisions_k<=1": precisions(tier), "pairs": "1/16 at d=4" if tier == "quick" else "all at d=4, 1/8 at d=2",
            "exhaustive": True}


def units(tier):
    n = len(speclib.menu(FMT))
    u = [{"k": 0}]
    for d in precisions(tier):
        u += [{"k": 1, "lo": i, "hi": min(n, i + 60), "d": d} for i in range(0, n, 60)]
    for sh in range(128):
        u.append({"k": 2, "shard": sh, "of": 128, "slice": 16 if tier == "quick" else 1, "d": 4})
    if tier == "thorough":
        for sh in range(64):
            u.append({"k": 2, "shard": sh, "of": 64, "slice": 8, "d": 2})
    return u


def expected_conventions(sp):
    """XML reader conventions applied to the spec itself (so the expected snapshot carries them)"""
    sp = copy.deepcopy(sp)
    for l in sp["lanelets"]:
        sl = l.get("stop_line")
        if sl and sl.get("start") is None:
            sl["start"], sl["end"] = list(l["left"][-1]), list(l["right"][-1])
    return sp


def check_spec(sp, labels, res, tmpdir, precision, reuse=False):
    """round trip of sp; the expected snapshot comes from the convention-adjusted spec"""
    case = {"labels": list(labels), "fmt": FMT, "precision": precision}
    res.evals += 1; res.transitions += 2; res.states += 1
    if labels:
        res.nontrivial += 1
    try:
        sc, pps = spec.build(sp)
        esc, epps = spec.build(expected_conventions(sp))
    except Exception as e:
        res.guarded += 1
        res.outcomes[f"spec-rejected-by-constructors:{type(e).__name__}"] += 1
        return
    s0 = roundtrip.snapshot(esc, epps)
    fn = os.path.join(tmpdir, f"f{os.getpid()}.xml")
    scenario_only = sum(map(ord, "".join(labels))) % 7 == 3
    again = sum(map(ord, "".join(labels))) % 7 == 5        # reader and writer objects are used a second time (roundtrip.reuse_routes)
    w = None
    try:
        if scenario_only:
            # every 7th spec (fixed by its labels) goes through the other entry point, write_scenario_to_file, and another writer with another
            # decimal precision is constructed between this writer's construction and its use; only the scenario part is compared
            from commonroad.common.file_writer import CommonRoadFileWriter, OverwriteExistingFile
            from commonroad.common.util import FileFormat
            w = CommonRoadFileWriter(sc, pps, sc.author, sc.affiliation, sc.source, sc.tags, sc.location, decimal_precision=precision, file_format=FileFormat.XML)
            CommonRoadFileWriter(esc, epps, "x", "y", "z", esc.tags, decimal_precision=2 if precision != 2 else 9, file_format=FileFormat.XML)
            w.write_scenario_to_file(fn, OverwriteExistingFile.ALWAYS)
            case = dict(case, entry="write_scenario_to_file")
        else:
            w = roundtrip.write(sc, pps, FMT, fn, precision)
    except Exception as e:
        res.violation(f"C01|write|raises:{type(e).__name__}:{c02._san(e)}", f"{labels} d={precision}: {e!r}", case)
        return
    try:
        sc2, pps2 = roundtrip.read(FMT, fn)
    except Exception as e:
        res.violation(f"C01|read|raises:{type(e).__name__}:{c02._san(e)}", f"{labels} d={precision}: {e!r}", case)
        return
    s1 = roundtrip.snapshot(sc2, pps2)
    if scenario_only:
        s0 = dict(s0, pps={}); s1 = dict(s1, pps={})
    seen = set()
    for path, kind, detail in roundtrip.compare(s0, s1, FMT, precision):
        p, k = roundtrip.classify(path, kind)
        if (p, k) in seen:
            continue
        seen.add((p, k))
        res.violation(f"C01|{p}|{k}", f"{list(labels)} d={precision}: {path}: {detail}", case)
    res.outcomes[f"roundtrip-compared:d={precision}"] += 1
    if again and w is not None:
        res.transitions += 5
        case = dict(case, route="reader-and-writer-used-again")
        for sig, detail in roundtrip.reuse_routes(w, sc, pps, esc, epps, FMT, precision, fn, already=seen):
            res.violation(f"C01|{sig}", f"{list(labels)} d={precision}: {detail}", case)
        res.outcomes["reader-and-writer-used-again"] += 1


def run_unit(unit, tier):
    res = Result()
    M = speclib.menu(FMT)
    base = speclib.base()
    d = tempfile.mkdtemp(prefix="c01_")
    try:
        if unit["k"] == 0:
            for p in range(1, 13):
                check_spec(base, (), res, d, p)
        elif unit["k"] == 1:
            for i in range(unit["lo"], unit["hi"]):
                sp = copy.deepcopy(base)
                if M[i][2](sp) is False:
                    continue
                check_spec(sp, (M[i][1],), res, d, unit["d"])
                res.sample({"deviations": [M[i][1]], "precision": unit["d"]}, 2)
        else:
            n = len(M)
            for i in range(n):
                for j in range(i + 1, n):
                    if (i * 31 + j) % unit["of"] != unit["shard"]:
                        continue
                    if unit["slice"] > 1 and (i + j) % unit["slice"]:
                        continue
                    if M[i][0] == M[j][0] or speclib.conflicts(M[i][0], M[j][0]):
                        continue
                    sp = copy.deepcopy(base)
                    try:
                        if M[i][2](sp) is False or M[j][2](sp) is False:
                            continue
                    except (KeyError, IndexError, TypeError, AttributeError):
                        res.outcomes["pair-not-composable"] += 1
                        continue
                    check_spec(sp, (M[i][1], M[j][1]), res, d, unit["d"])
                    res.sample({"deviations": [M[i][1], M[j][1]], "precision": unit["d"]}, 2)
    finally:
        import shutil
        shutil.rmtree(d, ignore_errors=True)
    return res


def replay(case):
    res = Result()
    d = tempfile.mkdtemp(prefix="c01_")
    check_spec(c02.spec_from_labels(case["labels"], FMT), tuple(case["labels"]), res, d, case.get("precision", 4))
    import shutil
    shutil.rmtree(d, ignore_errors=True)
    return [(s, dd) for s, dd, _ in res.violations]


def canaries():
    from commonroad.common.writer import file_writer_xml as w

    @contextlib.contextmanager
    def float_rounds_half_up_at_low_precision():
        o = w.float_to_str

        def bad(f):
            from commonroad.common.writer.file_writer_interface import precision
            return ("%." + str(precision.decimals) + "f") % (f + 0.6 * 10 ** (-precision.decimals)) if precision.decimals == 1 else o(f)
        w.float_to_str = bad
        try:
            yield
        finally:
            w.float_to_str = o

    @contextlib.contextmanager
    def reader_maps_yawrate_to_slipangle():
        from commonroad.common.reader import file_reader_xml as r
        o = r.StateFactory.create_from_xml_node

        def bad(cls, xml_node, *a, **k):
            st = o.__func__(cls, xml_node, *a, **k)
            if hasattr(st, "yaw_rate") and hasattr(st, "slip_angle") and st.yaw_rate is not None:
                st.yaw_rate, st.slip_angle = st.slip_angle, st.yaw_rate
            return st
        r.StateFactory.create_from_xml_node = classmethod(bad)
        try:
            yield
        finally:
            r.StateFactory.create_from_xml_node = o
    return [("float_to_str-rounds-up-at-precision-1", float_rounds_half_up_at_low_precision), ("reader-swaps-yaw_rate-and-slip_angle", reader_maps_yawrate_to_slipangle)]
