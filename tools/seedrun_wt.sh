#!/bin/bash
# usage: tools/seedrun_wt.sh <PROP> <patch.diff> <worktree> [tier]  -- like seedrun.sh but against a scratch worktree (VERIF_REPO),
# so that /repo stays untouched (seedmatrix.sh uses this with its own worktree).
set -u
PROP=$1; PATCH=$2; WT=$3; TIER=${4:-quick}
git -C $WT checkout -q --detach $(git -C /repo rev-parse HEAD) 2>/dev/null; git -C $WT checkout -- .
git -C $WT apply "$PATCH" || { echo "patch does not apply"; exit 9; }
cd /verif
# (the whole output is captured first: cutting it with head while the check still writes would kill the check)
OUT=$(VERIF_REPO=$WT /venv/bin/python -m mc.run $PROP --tier $TIER --no-confirm 2>&1); rc=$?
echo "$OUT" | grep -v condarc | grep -E "VIOLATION|signature|tier=|HARNESS|KNOWN" | cut -c1-220 | head -${SEEDRUN_LINES:-14}
git -C $WT checkout -- .
find $WT -name __pycache__ -prune -exec rm -rf {} + 2>/dev/null
echo "seedrun rc=$rc"
