import os
import sys
import traceback

from mc.core import main

if __name__ == "__main__":
    try:
        rc = main(sys.argv[1:])
    except SystemExit:
        raise
    except BaseException:
        # a crash of the machinery is never a verdict: exit code 2 and no VIOLATION line (stdout may have been silenced: write to fd 1 / 2 directly)
        tb = traceback.format_exc()
        import mc.core as core
        msg = "HARNESS-ERROR property=%s the check itself crashed: %s\n" % (sys.argv[1] if len(sys.argv) > 1 else "?", tb.strip().splitlines()[-1])
        try:
            if core._REAL is not None:
                core._REAL[1].write(tb); core._REAL[0].write(msg); core._REAL[0].flush(); core._REAL[1].flush()
            else:
                os.write(2, tb.encode()); os.write(1, msg.encode())
        except Exception:
            pass
        os._exit(2)
    sys.exit(rc)
