"""C07 - obstacle-lanelet assignment is geometrically correct and invertible.  E2-grid (inputs) + E1 (histories).

Inputs: 4 networks from the half-integer lanelet alphabet x all obstacle sets of size 1..2 from a 16-obstacle pool (static /
dynamic with a 2-3 state trajectory / dynamic without prediction; rectangle, circle, centroid-centred polygon; poses chosen so
that centre-inside, only-shape-touches, straddling and outside all occur) x 3 assignment routes (assign_obstacles_to_lanelets,
XML open(lanelet_assignment=True), protobuf open(lanelet_assignment=True)).
Histories (E1 BFS): add / assign() / assign({o}) / remove_obstacle(o) / remove_obstacle([o,o']) over 4 obstacles on a
2-lanelet network, in lock-step with a reference model (present set x assigned set); the graph is finite and is closed in the
thorough tier.  Oracle: exact rational geometry for centre and shape lanelet sets; registries = inverse relation.
"""
import contextlib
import itertools
import math
import os
import tempfile

from mc.core import Result
from mc import bfs, geom, netgeo, spec

PROPERTY = "C07"
RULE = ("inputs: full product networks x obstacle sets (size<=2) x routes, every obstacle x every time step of its horizon; histories: "
        "BFS over all operation sequences up to the depth bound (closed graph in thorough), states de-duplicated on (present, assigned, "
        "assignment attributes, registries). non-trivial = obstacle/time pairs whose expected shape-lanelet set is non-empty")
ASSUMPTIONS = ["exact states, use_center_only=False, trajectory prediction or none (set-based predictions are outside the quantifier)",
               "circles within 1% of r of a lanelet boundary and rotated shapes within 1e-7 relative of touching are guarded",
               "obstacle polygons have their centroid at the frame origin (rotation centre is then unambiguous)"]

HEX = [[-2.0, -1.0], [2.0, -1.0], [3.0, 0.0], [2.0, 1.0], [-2.0, 1.0], [-3.0, 0.0]]
NETWORKS = [[1, 6], [1, 5], [2, 6, 8], [1, 3, 4], [1, 9, 6]]


def placed(shape, x, y, th):
    """global-frame shape spec of an obstacle shape (frame origin centred) at a pose"""
    if shape[0] == "rect":
        if shape[3] or shape[4] or shape[5]:
            assert th == 0, "off-centre shapes are only placed by pure translation (the pivot of a rotation is not fixed by the statement)"
            return ["rect", shape[1], shape[2], x + shape[3], y + shape[4], shape[5]]
        return ["rect", shape[1], shape[2], x, y, th]
    if shape[0] == "circle":
        if shape[2] or shape[3]:
            assert th == 0
            return ["circle", shape[1], x + shape[2], y + shape[3]]
        return ["circle", shape[1], x, y]
    c, s = (1.0, 0.0) if th == 0 else (math.cos(th), math.sin(th))
    return ["poly", [[x + c * px - s * py, y + s * px + c * py] for px, py in shape[1]], th != 0]


def shape_hits(gsp, ids):
    """(hit, undecided) for a placed shape; polygons with irrational vertices are decided by shrink/grow agreement"""
    hit, und = [], []
    for i in ids:
        R = netgeo.ring_of(i)
        if gsp[0] == "poly":
            pts = gsp[1]
            if len(gsp) > 2 and gsp[2]:
                cx = sum(p[0] for p in pts) / len(pts); cy = sum(p[1] for p in pts) / len(pts)
                a = geom.rings_intersect(geom.ring([[cx + (p[0] - cx) * (1 - 1e-7), cy + (p[1] - cy) * (1 - 1e-7)] for p in pts]), R)
                b = geom.rings_intersect(geom.ring([[cx + (p[0] - cx) * (1 + 1e-7), cy + (p[1] - cy) * (1 + 1e-7)] for p in pts]), R)
                r = a if a == b else None
            else:
                r = geom.rings_intersect(geom.ring(pts), R)
        else:
            r = netgeo.shape_vs_ring(gsp, R)
        if r is True:
            hit.append(i)
        elif r is None:
            und.append(i)
    return sorted(hit), sorted(und)


def ks(t, x, y, th):
    return {"cls": "KSState", "attrs": {"time_step": t, "position": [x, y], "orientation": th, "velocity": 2.0, "steering_angle": 0.0}}


def pool():
    """name -> obstacle spec (exact states)"""
    P = {}
    rect, circ, hexa, small = ["rect", 4.0, 2.0, 0.0, 0.0, 0.0], ["circle", 1.5, 0.0, 0.0], ["poly", HEX], ["rect", 1.0, 0.5, 0.0, 0.0, 0.0]
    n = [300]

    def static(name, shape, x, y, th):
        n[0] += 1
        P[name] = {"role": "static", "id": n[0], "type": "PARKED_VEHICLE", "shape": shape, "initial_state": spec.init_state(x=x, y=y, o=th, t=0)}

    def dyn(name, shape, poses, t0=0):
        n[0] += 1
        x, y, th = poses[0]
        d = {"role": "dynamic", "id": n[0], "type": "CAR", "shape": shape, "initial_state": spec.init_state(x=x, y=y, o=th, t=t0)}
        if len(poses) > 1:
            d["prediction"] = {"k": "trajectory", "t0": t0 + 1, "shape": shape, "states": [ks(t0 + 1 + i, *p) for i, p in enumerate(poses[1:])]}
        P[name] = d
    static("s-rect-inside", small, 4.0, 1.0, 0.0)            # centre and shape inside lanelet 1
    static("s-rect-straddle", rect, 4.0, 2.0, 0.0)           # centre on the shared boundary of 1 and 6
    static("s-rect-touch", rect, 4.0, 3.5, 0.0)              # centre in 6, shape reaches 1 (and touches 2 at y=4.5? no: up to 4.5)
    static("s-rect-rot", rect, 9.0, 1.0, 0.6)                # centre outside 1, rotated shape reaches 1 and 5
    static("s-rect-outside", small, 20.0, 20.0, 0.0)
    static("s-circle", circ, 4.0, 4.0, 0.0)                  # centre on boundary 6/2, disc reaches into 6 and 2 (r/2 vs r matters for 1? no)
    static("s-circle-edge", circ, 9.0, 1.0, 0.0)             # centre outside lanelet 1 (x>8), disc of radius 1.5 reaches it; r/2 does not
    static("s-hex", hexa, 6.0, 2.5, 0.0)
    static("s-hex-rot", hexa, 11.0, 4.0, math.pi / 2)
    # non-convex outline around the start of lanelet 4: the centroid lies on the lanelet, the polygon does not touch it (orientation 0: pure translation)
    static("s-C-around-lanelet-4", ["poly", [[-4.0, -2.25], [1.0, -2.25], [1.0, -1.25], [-3.0, -1.25], [-3.0, 1.25], [1.0, 1.25], [1.0, 2.25], [-4.0, 2.25]]], 12.0, 0.25, 0.0)
    # the shape's reference point is not its centre: the obstacle's position lies in lanelet 1, the shape lies in lanelet 6 (orientation 0)
    static("s-rect-offcentre", ["rect", 1.0, 1.0, 0.0, 2.0, 0.0], 4.0, 1.0, 0.0)
    static("s-poly-offcentroid", ["poly", [[-0.5, 1.5], [0.5, 1.5], [0.5, 2.5], [-0.5, 2.5]]], 4.0, 1.0, 0.0)
    dyn("d-rect-traj", rect, [(2.0, 1.0, 0.0), (5.0, 1.5, 0.2), (8.0, 2.5, 0.4)])
    dyn("d-rect-traj-late", rect, [(1.0, 3.0, 0.0), (4.0, 3.0, 0.0), (9.5, 3.0, 0.0), (13.0, 3.0, 0.0)], t0=2)
    dyn("d-small-traj", small, [(4.0, 5.0, 0.0), (7.0, 6.5, 0.5)])
    dyn("d-circle-traj", circ, [(2.0, -1.0, 0.0), (6.0, 0.5, 0.0)])
    dyn("d-hex-traj", hexa, [(11.0, 0.25, 0.0), (12.0, 2.0, 0.0), (12.0, 4.5, 0.0)])
    # turns on the spot: consecutive states share the position, the occupied lanelets change with the orientation only
    dyn("d-rect-turn", rect, [(2.0, 0.5, 0.0), (4.0, 0.5, 0.0), (4.0, 0.5, math.pi / 2), (4.0, 0.5, 0.0), (4.0, 0.5, 1.2)])
    dyn("d-offcentre-traj", ["rect", 1.0, 1.0, 0.0, 2.0, 0.0], [(2.0, 1.0, 0.0), (5.0, 1.0, 0.0), (7.0, 1.0, 0.0)])
    # the prediction carries its own shape (larger than the obstacle's shape): the occupancy at predicted steps is the prediction's shape
    dyn("d-two-shapes", small, [(2.0, 1.0, 0.0), (4.0, 1.5, 0.0), (6.0, 1.0, 0.0)])
    P["d-two-shapes"]["prediction"]["shape"] = ["rect", 4.0, 2.0, 0.0, 0.0, 0.0]
    dyn("d-rect-noprediction", rect, [(4.0, 2.0, 0.3)])
    dyn("d-circle-noprediction", circ, [(4.0, 1.0, 0.0)], t0=1)
    return P


def horizon(osp):
    t0 = osp["initial_state"]["attrs"]["time_step"]
    if osp["role"] == "static":
        return [t0]
    p = osp.get("prediction")
    return [t0] + ([p["t0"] + i for i in range(len(p["states"]))] if p else [])


def pose_at(osp, t):
    a = osp["initial_state"]["attrs"]
    if t == a["time_step"] or osp["role"] == "static":
        return a["position"][0], a["position"][1], a["orientation"]
    sa = osp["prediction"]["states"][t - osp["prediction"]["t0"]]["attrs"]
    return sa["position"][0], sa["position"][1], sa["orientation"]


def expected_assignment(osp, ids):
    """t -> (center set, shape hit set, shape undecided set)"""
    out = {}
    for t in horizon(osp):
        x, y, th = pose_at(osp, t)
        shp = osp["shape"] if (t == osp["initial_state"]["attrs"]["time_step"] or osp["role"] == "static") else osp["prediction"].get("shape", osp["shape"])
        hit, und = shape_hits(placed(shp, x, y, th), ids)
        out[t] = (netgeo.lanelets_at((x, y), ids), hit, und)
    return out


def scenario_spec(ids, onames):
    P = pool()
    sp = spec.minimal()
    sp["lanelets"] = [netgeo.lanelet_spec(i) for i in ids]
    sp["obstacles"] = [P[n] for n in onames]
    sp["pps"] = [spec.pp(100, x=1.0, y=1.0)]
    return sp


def observed(sc, oid):
    """(center per t, shape per t) from the public assignment attributes"""
    o = sc.obstacle_by_id(oid)
    t0 = o.initial_state.time_step
    cen = {t0: None if o.initial_center_lanelet_ids is None else sorted(o.initial_center_lanelet_ids)}
    shp = {t0: None if o.initial_shape_lanelet_ids is None else sorted(o.initial_shape_lanelet_ids)}
    p = getattr(o, "prediction", None)
    if p is not None:
        for t, v in (p.center_lanelet_assignment or {}).items():
            if t != t0 or cen[t0] is None:
                cen[int(t)] = sorted(v)
        for t, v in (p.shape_lanelet_assignment or {}).items():
            if t != t0 or shp[t0] is None:
                shp[int(t)] = sorted(v)
    return cen, shp, p


def registries(sc):
    """lanelet -> (static ids, {t: dynamic ids})"""
    out = {}
    for l in sc.lanelet_network.lanelets:
        out[l.lanelet_id] = (sorted(l.static_obstacles_on_lanelet or []), {int(t): sorted(v) for t, v in (l.dynamic_obstacles_on_lanelet or {}).items() if v})
    return out


def shape_kind(osp):
    return osp["shape"][0]


def check_assigned(sc, ids, specs_assigned, route, res, case, others_present=()):
    """every obstacle in specs_assigned (name->spec) must carry correct assignments; registries must be the exact inverse"""
    exp_reg_static = {i: set() for i in ids}
    exp_reg_dyn = {i: {} for i in ids}
    und_static = {i: set() for i in ids}
    und_dyn = {i: {} for i in ids}
    bad = False
    for name, osp in specs_assigned.items():
        exp = expected_assignment(osp, ids)
        cen, shp, pred = observed(sc, osp["id"])
        kind = shape_kind(osp)
        for t in horizon(osp):
            ec, eh, eu = exp[t]
            res.evals += 1
            if eh:
                res.nontrivial += 1
            where = "initial" if t == osp["initial_state"]["attrs"]["time_step"] else "trajectory"
            gc, gs = cen.get(t), shp.get(t)
            if gc is None or sorted(gc) != ec:
                res.violation(f"C07|route:{route}|{osp['role']}|{where}|center|{'unassigned' if gc is None else ('missing' if set(ec) - set(gc) else 'extra')}",
                              f"{case} obstacle {name} t={t}: center lanelets recorded {gc}, expected {ec}", case); bad = True
            if gs is None:
                res.violation(f"C07|route:{route}|{osp['role']}|{where}|shape|unassigned", f"{case} obstacle {name} t={t}: no shape lanelets recorded, expected {eh}", case); bad = True
            else:
                g_dec = [i for i in gs if i not in eu]
                if g_dec != eh:
                    res.violation(f"C07|route:{route}|{osp['role']}|{where}|shape:{kind}|{'missing' if set(eh) - set(g_dec) else 'extra'}",
                                  f"{case} obstacle {name} t={t}: shape lanelets recorded {gs}, expected {eh} (undecided {eu})", case); bad = True
            if eu:
                res.guarded += 1
            # inverse relation is defined on what is *recorded* as shape assignment
            rec = gs if gs is not None else []
            for i in rec:
                if osp["role"] == "static":
                    exp_reg_static[i].add(osp["id"])
                else:
                    exp_reg_dyn[i].setdefault(t, set()).add(osp["id"])
    reg = registries(sc)
    for i in ids:
        gs_, gd_ = reg[i]
        es = sorted(exp_reg_static[i])
        if gs_ != es:
            res.violation(f"C07|route:{route}|registry:static|not-inverse:{'missing' if set(es) - set(gs_) else 'extra'}",
                          f"{case} lanelet {i}: static registry {gs_}, inverse of the recorded shape assignment {es}", case); bad = True
        ed = {t: sorted(v) for t, v in exp_reg_dyn[i].items() if v}
        if gd_ != ed:
            miss = any(set(ed.get(t, [])) - set(gd_.get(t, [])) for t in set(ed) | set(gd_))
            res.violation(f"C07|route:{route}|registry:dynamic|not-inverse:{'missing' if miss else 'extra'}",
                          f"{case} lanelet {i}: dynamic registry {gd_}, inverse of the recorded shape assignment {ed}", case); bad = True
    return not bad


def run_inputs(ids, onames, route, res, tmpdir):
    from commonroad.common.file_writer import CommonRoadFileWriter, OverwriteExistingFile
    from commonroad.common.file_reader import CommonRoadFileReader
    from commonroad.common.util import FileFormat
    case = {"k": "inputs", "ids": ids, "obstacles": list(onames), "route": route}
    if route == "xml" and ("d-offcentre-traj" in onames or "d-two-shapes" in onames):
        res.guarded += 1        # the 2020a XML format stores ONE shape per dynamic obstacle, without a centre: off-centre / two-shape obstacles are not expressible
        return
    sp = scenario_spec(ids, onames)
    P = {n: o for n, o in zip(onames, sp["obstacles"])}
    res.transitions += 1; res.states += 1
    try:
        sc, pps = spec.build(sp)
        if route == "assign":
            sc.assign_obstacles_to_lanelets()
        elif route == "assign-move-network-assign":
            # assigned where it was built, then the road alone is moved far away and the obstacles are assigned again: they are on no lanelet now
            import numpy as np
            sc.assign_obstacles_to_lanelets()
            sc.lanelet_network.translate_rotate(np.array([500.0, 300.0]), 0.0)
            sc.assign_obstacles_to_lanelets()
        elif route == "shift-then-assign":
            # the whole scenario is moved by a pure translation first (lookups were made before, so every derived structure exists): lanelets and
            # obstacles move together, the assignment is the one of the unmoved scenario
            import numpy as np
            sc.lanelet_network.find_lanelet_by_position([np.array([1.0, 1.0])])
            for l_ in sc.lanelet_network.lanelets:
                _ = l_.polygon
            sc.translate_rotate(np.array([16.0, -8.0]), 0.0)
            sc.assign_obstacles_to_lanelets()
        else:
            ff = FileFormat.XML if route == "xml" else FileFormat.PROTOBUF
            fn = os.path.join(tmpdir, "c07." + ("xml" if route == "xml" else "pb"))
            CommonRoadFileWriter(sc, pps, "a", "b", "c", sc.tags, file_format=ff).write_to_file(fn, OverwriteExistingFile.ALWAYS)
            sc, _ = CommonRoadFileReader(fn, file_format=ff).open(lanelet_assignment=True)
    except Exception as e:
        res.violation(f"C07|route:{route}|raises:{type(e).__name__}", f"{case}: {e!r}", case)
        return
    if route == "assign-move-network-assign":
        # obstacle side only (what the second assignment leaves in the lanelets' registries from the first one is not stated)
        for n in onames:
            cen, shp, _ = observed(sc, P[n]["id"])
            for t in horizon(P[n]):
                res.evals += 1; res.nontrivial += 1
                if cen.get(t) or shp.get(t):
                    res.violation(f"C07|route:{route}|{P[n]['role']}|{'initial' if t == P[n]['initial_state']['attrs']['time_step'] else 'trajectory'}|assignment-to-lanelets-that-are-elsewhere",
                                  f"{case} obstacle {n} t={t}: center {cen.get(t)} shape {shp.get(t)} although every lanelet was moved away by (500, 300)", case)
        res.outcomes[f"inputs:{route}"] += 1
        return
    ok = check_assigned(sc, ids, P, route, res, case)
    # removing every contained obstacle must work and leave clean registries
    if ok or True:
        for n in onames:
            try:
                sc.remove_obstacle(sc.obstacle_by_id(P[n]["id"]))
            except Exception as e:
                res.violation(f"C07|route:{route}|{P[n]['role']}|remove-raises:{type(e).__name__}", f"{case} removing {n}: {e!r}", case)
        reg = registries(sc)
        left = {i: r for i, r in reg.items() if r[0] or r[1]}
        if left and not any(v[0].startswith(f"C07|route:{route}|") and "remove-raises" in v[0] for v in res.violations):
            res.violation(f"C07|route:{route}|registry|stale-after-remove", f"{case}: registries after removing every obstacle: {left}", case)
    res.outcomes[f"inputs:{route}"] += 1


# ------------------------------------------------------------------ histories (E1)

H_IDS = [1, 6]
H_OBST = ["s-rect-straddle", "s-rect-inside", "d-rect-traj", "d-rect-noprediction"]


def h_start():
    from commonroad.scenario.scenario import Scenario, ScenarioID
    sc = Scenario(0.1, ScenarioID())
    for i in H_IDS:
        sc.add_objects(spec.mk_lanelet(netgeo.lanelet_spec(i)))
    sc._verif_shelf = {}                       # harness only: obstacle objects that were removed while assigned (kept for re-adding the SAME object)
    return sc, (frozenset(), frozenset(), frozenset())     # (present, assigned, shelved)


def h_enabled(model):
    present, assigned, shelved = model
    ops = []
    for n in H_OBST:
        if n not in present:
            ops.append(["add", n])
    for n in sorted(shelved):
        if n not in present:
            ops.append(["readd", n])          # the very object that was assigned and then removed (it still carries its lanelet assignment)
    for n in sorted(present):
        # an obstacle object with the id of a contained obstacle that already carries a lanelet assignment (it was assigned in another scenario on
        # the same map): the add is rejected with ValueError, and nothing changes
        ops.append(["readd_rejected", n])
    if present:
        ops.append(["assign"])
    for n in sorted(present):
        ops.append(["assign_one", n])
        ops.append(["remove", n])
    for a, b in itertools.combinations(sorted(present), 2):
        ops.append(["remove_list", [a, b]])
    return ops


def h_step(sc, model, op):
    P = pool()
    present, assigned, shelved = set(model[0]), set(model[1]), set(model[2])
    k = op[0]

    def shelve(n):
        if n in assigned:
            sc._verif_shelf[n] = sc.obstacle_by_id(P[n]["id"]); shelved.add(n)
    try:
        if k == "add":
            sc.add_objects(spec.mk_obstacle(P[op[1]])); present.add(op[1])
        elif k == "readd":
            sc.add_objects(sc._verif_shelf[op[1]]); present.add(op[1]); assigned.add(op[1])
        elif k == "readd_rejected":
            from commonroad.scenario.scenario import Scenario, ScenarioID
            other = Scenario(0.1, ScenarioID())
            for i in H_IDS:
                other.add_objects(spec.mk_lanelet(netgeo.lanelet_spec(i)))
            dup = spec.mk_obstacle(P[op[1]])
            other.add_objects(dup); other.assign_obstacles_to_lanelets()
            try:
                sc.add_objects(dup)
                return ("accepted-although-id-in-use", None), (frozenset(present), frozenset(assigned), frozenset(shelved))
            except ValueError:
                pass
        elif k == "assign":
            sc.assign_obstacles_to_lanelets(); assigned |= present
        elif k == "assign_one":
            sc.assign_obstacles_to_lanelets(obstacle_ids={P[op[1]]["id"]}); assigned.add(op[1])
        elif k == "remove":
            shelve(op[1])
            present.discard(op[1]); assigned.discard(op[1])
            sc.remove_obstacle(sc.obstacle_by_id(P[op[1]]["id"]))
        elif k == "remove_list":
            objs = [sc.obstacle_by_id(P[n]["id"]) for n in op[1]]
            for n in op[1]:
                shelve(n)
                present.discard(n); assigned.discard(n)
            sc.remove_obstacle(objs)
        obs = ("ok", None)
    except Exception as e:
        obs = ("raises:" + type(e).__name__, str(e)[:200])
    return obs, (frozenset(present), frozenset(assigned), frozenset(shelved))


def h_canon(sc, model):
    obs = []
    for o in sc.obstacles:
        cen, shp, _ = observed(sc, o.obstacle_id)
        obs.append((o.obstacle_id, repr(sorted(cen.items(), key=repr)), repr(sorted(shp.items(), key=repr))))
    return (model, tuple(sorted(obs)), repr(sorted(registries(sc).items())))


def h_check(sc, model, model2, op, obs, pre):
    P = pool()
    res = Result()
    case = {"op": op}
    out = []
    if obs[0] == "accepted-although-id-in-use":
        out.append((f"C07|history|{op[0]}|add-accepted-although-id-in-use", f"{op}"))
        return out
    if obs[0] != "ok":
        role = P[op[1] if isinstance(op[1], str) else op[1][0]]["role"] if len(op) > 1 else "-"
        out.append((f"C07|history|{op[0]}|{role}|{'remove-' if op[0].startswith('remove') else ''}{obs[0]}", f"{op}: {obs[1]}"))
        return out
    present, assigned, _shelved = model2
    got_present = sorted(o.obstacle_id for o in sc.obstacles)
    if got_present != sorted(P[n]["id"] for n in present):
        out.append((f"C07|history|{op[0]}|contained-obstacles-differ", f"{got_present}"))
        return out
    check_assigned(sc, H_IDS, {n: P[n] for n in assigned}, "history:" + op[0], res, case)
    for s, d, _ in res.violations:
        out.append((s, d))
    # obstacles that are present but were never assigned must not appear in any registry
    unassigned_ids = {P[n]["id"] for n in present - assigned}
    for lid, (st, dy) in registries(sc).items():
        leak = (set(st) | {i for v in dy.values() for i in v}) & unassigned_ids
        gone = (set(st) | {i for v in dy.values() for i in v}) - {P[n]["id"] for n in present}
        if gone:
            out.append((f"C07|history|{op[0]}|registry|stale-after-remove", f"lanelet {lid} still lists removed obstacles {sorted(gone)}"))
    return out


def two_scenarios(ids, names_a, names_b, res):
    """two lanelet networks made from the SAME lanelet objects (create_from_lanelet_list copies them), each in its own scenario: what is
    assigned in one scenario must not show up in the registries of the other"""
    from commonroad.scenario.scenario import Scenario, ScenarioID
    from commonroad.scenario.lanelet import LaneletNetwork
    P = pool()
    case = {"k": "two-scenarios", "ids": list(ids), "a": list(names_a), "b": list(names_b)}
    res.evals += 1; res.transitions += 2; res.nontrivial += 1; res.states += 1
    try:
        lanelets = [spec.mk_lanelet(netgeo.lanelet_spec(i)) for i in ids]
        scs = []
        for names in (names_a, names_b):
            sc = Scenario(0.1, ScenarioID())
            sc.add_objects(LaneletNetwork.create_from_lanelet_list(lanelets))
            for n in names:
                sc.add_objects(spec.mk_obstacle(P[n]))
            scs.append(sc)
        scs[0].assign_obstacles_to_lanelets()
        # B has not been assigned yet: its registries must be empty
        leaked = {lid: v for lid, v in registries(scs[1]).items() if v[0] or any(v[1].values())}
        if leaked:
            res.violation("C07|two-scenarios|registry-of-the-other-scenario-changed", f"{case}: scenario B lists {leaked} before anything was assigned in it", case)
            return
        scs[1].assign_obstacles_to_lanelets()
        for sc, names, tag in ((scs[0], names_a, "A"), (scs[1], names_b, "B")):
            sub = Result()
            check_assigned(sc, list(ids), {n: P[n] for n in names}, "two-scenarios", sub, case)
            for s_, d_, _ in sub.violations:
                res.violation(s_, f"scenario {tag}: {d_}", case)
            own = {P[n]["id"] for n in names}
            for lid, (st, dy) in registries(sc).items():
                foreign = (set(st) | {i for v in dy.values() for i in v}) - own
                if foreign:
                    res.violation("C07|two-scenarios|registry-lists-obstacles-of-the-other-scenario", f"{case}: scenario {tag}, lanelet {lid}: {sorted(foreign)}", case)
    except Exception as e:
        res.violation(f"C07|two-scenarios|raises:{type(e).__name__}", f"{case}: {e!r}", case)
    res.outcomes["two-scenarios"] += 1


def preassigned_case(ids, name, which, res):
    """an obstacle that carries a lanelet assignment when it is added (set by its creator: the shape lanelets, the centre lanelets, or both; the
    values are the correct ones): after add_objects every lanelet's registry is the inverse of the recorded shape assignment, and after
    remove_obstacle no registry lists the obstacle any more"""
    from commonroad.scenario.scenario import Scenario, ScenarioID
    P = pool()
    osp = P[name]
    case = {"k": "preassigned", "ids": list(ids), "obstacle": name, "given": which}
    res.evals += 1; res.transitions += 2; res.nontrivial += 1; res.states += 1
    exp = expected_assignment(osp, ids)
    t0 = osp["initial_state"]["attrs"]["time_step"]
    if any(exp[t][2] for t in exp):
        res.guarded += 1       # an undecided lanelet (guard band): not used for pre-assignment
        return
    try:
        sc = Scenario(0.1, ScenarioID())
        for i in ids:
            sc.add_objects(spec.mk_lanelet(netgeo.lanelet_spec(i)))
        o = spec.mk_obstacle(osp)
        if which in ("shape", "both"):
            o.initial_shape_lanelet_ids = set(exp[t0][1])
            if osp["role"] == "dynamic" and o.prediction is not None:
                o.prediction.shape_lanelet_assignment = {t: set(exp[t][1]) for t in exp if t != t0}
        if which in ("center", "both"):
            o.initial_center_lanelet_ids = set(exp[t0][0])
            if osp["role"] == "dynamic" and o.prediction is not None:
                o.prediction.center_lanelet_assignment = {t: set(exp[t][0]) for t in exp if t != t0}
        sc.add_objects(o)
    except Exception as e:
        res.violation(f"C07|preassigned:{which}|{osp['role']}|add-raises:{type(e).__name__}", f"{case}: {e!r}", case)
        return
    want_static = {i: ([osp["id"]] if osp["role"] == "static" and which != "center" and i in exp[t0][1] else []) for i in ids}
    want_dyn = {i: ({t: [osp["id"]] for t in exp if i in exp[t][1]} if osp["role"] == "dynamic" and which != "center" else {}) for i in ids}
    reg = registries(sc)
    for i in ids:
        if reg[i][0] != want_static[i] or reg[i][1] != want_dyn[i]:
            res.violation(f"C07|preassigned:{which}|{osp['role']}|registry-after-add|not-inverse", f"{case}: lanelet {i}: registries {reg[i]}, inverse of the assignment the obstacle carries: {want_static[i]}, {want_dyn[i]}", case)
            return
    try:
        sc.remove_obstacle(o)
    except Exception as e:
        res.violation(f"C07|preassigned:{which}|{osp['role']}|remove-raises:{type(e).__name__}", f"{case}: {e!r}", case)
        return
    left = {i: r for i, r in registries(sc).items() if r[0] or any(v for v in r[1].values())}
    if left:
        res.violation(f"C07|preassigned:{which}|{osp['role']}|registry|stale-after-remove", f"{case}: registries after removing the obstacle: {left}", case)
    res.outcomes["preassigned"] += 1


def after_lanelet_removal_case(ids, name, res):
    """'removing an obstacle that is in the scenario never fails': also when a lanelet the obstacle was assigned to has been removed from the
    scenario in the meantime (only this clause is asserted for such scenarios: the removal works and no remaining lanelet lists the obstacle)"""
    from commonroad.scenario.scenario import Scenario, ScenarioID
    P = pool()
    osp = P[name]
    exp = expected_assignment(osp, ids)
    used = sorted({i for t in exp for i in exp[t][1]})
    for gone in used:
        case = {"k": "after-lanelet-removal", "ids": list(ids), "obstacle": name, "removed_lanelet": gone}
        res.evals += 1; res.transitions += 3; res.nontrivial += 1; res.states += 1
        try:
            sc = Scenario(0.1, ScenarioID())
            for i in ids:
                sc.add_objects(spec.mk_lanelet(netgeo.lanelet_spec(i)))
            o = spec.mk_obstacle(osp)
            sc.add_objects(o)
            sc.assign_obstacles_to_lanelets()
            sc.remove_lanelet(sc.lanelet_network.find_lanelet_by_id(gone))
        except Exception as e:
            res.guarded += 1      # building this scenario is not what is asserted here
            res.outcomes[f"after-lanelet-removal:setup-raises:{type(e).__name__}"] += 1
            continue
        try:
            sc.remove_obstacle(o)
        except Exception as e:
            res.violation(f"C07|after-lanelet-removal|{osp['role']}|remove-raises:{type(e).__name__}", f"{case}: {e!r}", case)
            continue
        if sc.obstacle_by_id(osp["id"]) is not None:
            res.violation(f"C07|after-lanelet-removal|{osp['role']}|obstacle-still-contained", f"{case}", case)
        left = {i: r for i, r in registries(sc).items() if osp["id"] in r[0] or any(osp["id"] in v for v in r[1].values())}
        if left:
            res.violation(f"C07|after-lanelet-removal|{osp['role']}|registry|stale-after-remove", f"{case}: {left}", case)
        res.outcomes["after-lanelet-removal"] += 1


def describe(tier):
    return {"networks": NETWORKS, "obstacle_pool": sorted(pool()), "obstacle_sets": "all of size 1 and 2", "routes": ["assign", "xml", "pb"],
            "history_universe": H_OBST, "history_depth": 4 if tier == "quick" else 7, "exhaustive": True}


def units(tier):
    names = sorted(pool())
    u = []
    for ni, ids in enumerate(NETWORKS):
        for r in ("assign", "xml", "pb", "shift-then-assign", "assign-move-network-assign"):
            for n in names:
                u.append({"k": "inputs", "ids": ids, "obstacles": [n], "route": r})
        pairs = list(itertools.combinations(names, 2))
        for j, pr in enumerate(pairs):
            if tier == "quick" and (j + ni) % 4:
                continue
            for r in ("assign", "xml", "pb"):
                if tier == "quick" and r != "assign" and j % 3:
                    continue
                u.append({"k": "inputs", "ids": ids, "obstacles": list(pr), "route": r})
    for op in h_enabled((frozenset(), frozenset(), frozenset())):
        u.append({"k": "history", "first": op, "depth": 4 if tier == "quick" else 7})
    # non-initial start states: the slot of an obstacle that was assigned and removed again (its registry entries were emptied, not necessarily
    # deleted); everything up to the depth bound is explored from there, so a DIFFERENT obstacle takes the emptied slot (seed C07_r10_1)
    for n in H_OBST:
        u.append({"k": "history", "prefix": [["add", n], ["assign"], ["remove", n]], "depth": 3 if tier == "quick" else 5})
    u.append({"k": "two-scenarios"})
    u.append({"k": "preassigned"})
    u.append({"k": "after-lanelet-removal"})
    return u


def run_unit(unit, tier):
    res = Result()
    if unit["k"] == "inputs":
        d = tempfile.mkdtemp(prefix="c07_")
        try:
            run_inputs(unit["ids"], unit["obstacles"], unit["route"], res, d)
        finally:
            import shutil
            shutil.rmtree(d, ignore_errors=True)
        res.sample(unit, 1)
    elif unit["k"] == "two-scenarios":
        for ids in ([1, 6], [1, 5]):
            for a, b in ((["s-rect-straddle", "d-rect-traj"], ["s-rect-inside"]), (["d-rect-traj"], ["d-rect-turn", "s-rect-straddle"]), (["s-rect-straddle"], [])):
                two_scenarios(ids, a, b, res)
        res.sample(unit, 1)
    elif unit["k"] == "after-lanelet-removal":
        for ids in NETWORKS:
            for name in sorted(pool()):
                after_lanelet_removal_case(ids, name, res)
        res.sample(unit, 1)
    elif unit["k"] == "preassigned":
        for ids in NETWORKS:
            for name in sorted(pool()):
                for which in ("shape", "center", "both"):
                    preassigned_case(ids, name, which, res)
        res.sample(unit, 1)
    elif "prefix" in unit:
        info = bfs.search(h_start, h_enabled, h_step, h_canon, h_check, unit["depth"], res, prefix=unit["prefix"])
        res.extra["history_shards_closed"] = 1 if info["closed"] else 0
        res.extra["history_max_depth"] = [info["max_depth"] + len(unit["prefix"])]
    else:
        live, model = h_start()
        obs, model2 = h_step(live, model, unit["first"])
        res.transitions += 1
        for sig, detail in h_check(live, model, model2, unit["first"], obs, None):
            res.violation(sig, detail, {"history": [unit["first"]]})
        info = bfs.search(h_start, h_enabled, h_step, h_canon, h_check, unit["depth"] - 1, res, prefix=[unit["first"]])
        res.extra["history_shards_closed"] = 1 if info["closed"] else 0
        res.extra["history_max_depth"] = [info["max_depth"] + 1]
    return res


def replay(case):
    res = Result()
    if "history" in case:
        live, model = h_start()
        out = []
        for op in case["history"]:
            obs, model2 = h_step(live, model, op)
            out += h_check(live, model, model2, op, obs, None)
            model = model2
        return out
    if case.get("k") == "two-scenarios":
        two_scenarios(case["ids"], case["a"], case["b"], res)
        return [(s, d) for s, d, _ in res.violations]
    if case.get("k") == "after-lanelet-removal":
        after_lanelet_removal_case(case["ids"], case["obstacle"], res)
        return [(s, d) for s, d, _ in res.violations]
    if case.get("k") == "preassigned":
        preassigned_case(case["ids"], case["obstacle"], case["given"], res)
        return [(s, d) for s, d, _ in res.violations]
    d = tempfile.mkdtemp(prefix="c07_")
    run_inputs(case["ids"], case["obstacles"], case["route"], res, d)
    import shutil
    shutil.rmtree(d, ignore_errors=True)
    return [(s, dd) for s, dd, _ in res.violations]


def canaries():
    from commonroad.scenario import scenario as sc

    @contextlib.contextmanager
    def remove_skips_initial():
        o = sc.Scenario._remove_dynamic_obstacle_from_lanelets

        def bad(self, obstacle):
            if obstacle.prediction is not None and obstacle.prediction.shape_lanelet_assignment is not None:
                for time_step, ids in obstacle.prediction.shape_lanelet_assignment.items():
                    if time_step == obstacle.initial_state.time_step:
                        continue
                    for lanelet_id in ids:
                        self.lanelet_network.find_lanelet_by_id(lanelet_id).dynamic_obstacles_on_lanelet[time_step].discard(obstacle.obstacle_id)
        sc.Scenario._remove_dynamic_obstacle_from_lanelets = bad
        try:
            yield
        finally:
            sc.Scenario._remove_dynamic_obstacle_from_lanelets = o
    return [("remove-skips-initial-time-step-registry", remove_skips_initial)]
