"""Maintenance helper (never called by checks): add an entry to known_findings.json.
  python -m mc.kf fixed C16 <commit> "<signature or pattern>" "<what failed>"
  python -m mc.kf known C07 "<signature>" "<what fails>"
"""
import json, sys, os
P = os.path.join(os.path.dirname(os.path.dirname(os.path.abspath(__file__))), "known_findings.json")
d = json.load(open(P))
kind, prop = sys.argv[1], sys.argv[2]
if kind == "fixed":
    commit, sig, what = sys.argv[3:6]
    e = {"property": prop, "status": "fixed", "commit": commit, "signature": sig, "what": what,
         "line": f"fixed: property={prop} {commit} {what}"}
else:
    sig, what = sys.argv[3:5]
    e = {"property": prop, "status": "known", "signature": sig, "what": what,
         "line": f"KNOWN-FINDING: property={prop} {sig} :: {what}"}
d["findings"] = [f for f in d["findings"] if not (f["property"] == prop and f["signature"] == sig and f["status"] == kind)]
d["findings"].append(e)
d["findings"].sort(key=lambda f: (f["property"], f["status"], f["signature"]))
json.dump(d, open(P, "w"), indent=1)
print("ok", len(d["findings"]))
