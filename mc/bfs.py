"""E1: explicit-state breadth-first search over operation histories of *real* objects.

A state is identified by the history that reaches it; live objects are obtained by rebuilding the start object and
replaying the history (``rebuild``) - never by trusting the library's own deepcopy - so every explored transition is an
execution of the implementation on a fresh object.  ``canon`` maps the live object (+ reference model) to a hashable
canonical form used only for de-duplication.

    search(start, enabled, step, canon, check, depth, res)

    start()                -> (live, model)                       fresh start state
    enabled(model)         -> list of ops (JSON-serialisable)     decided by the reference model only
    step(live, model, op)  -> (obs, model')                       applies op to live (real call), advances the model
    canon(live, model)     -> hashable
    check(live, model, model', op, obs, pre) -> iterable of (signature, detail)
    snapshot(live)         -> 'pre' value passed to check (taken before the op), optional
"""
import collections


def rebuild(start, step, history):
    live, model = start()
    for op in history:
        _, model = step(live, model, op)
    return live, model


def search(start, enabled, step, canon, check, depth, res, snapshot=None, prefix=(), max_states=None, on_state=None):
    """BFS from the state reached by ``prefix`` (a history).  Returns dict with closure info."""
    live, model = rebuild(start, step, list(prefix))
    seen = {canon(live, model)}
    frontier = collections.deque([(list(prefix), model)])
    res.states += 1
    closed = True
    max_depth = 0
    d = 0
    while frontier and d < depth:
        nxt = collections.deque()
        for hist, model0 in frontier:
            for op in enabled(model0):
                live, model = rebuild(start, step, hist)
                pre = snapshot(live) if snapshot else None
                obs, model2 = step(live, model, op)
                res.transitions += 1
                res.evals += 1
                bad = False
                for item in check(live, model, model2, op, obs, pre):
                    res.violation(item[0], item[1], {"history": hist + [op]})
                    # a third element False marks a violation after which model and implementation are still in step
                    # (the model itself accounts for it), so the history is extended
                    if len(item) < 3 or item[2]:
                        bad = True
                if bad:
                    # implementation and reference model have diverged: histories through this transition are not
                    # extended (their verdicts would only repeat the divergence)
                    res.outcomes["pruned-after-violation"] += 1
                    continue
                res.outcomes[f"{op[0]}:{obs[0] if isinstance(obs, tuple) else obs}"] += 1
                k = canon(live, model2)
                if k not in seen:
                    seen.add(k)
                    res.states += 1
                    nxt.append((hist + [op], model2))
                    max_depth = max(max_depth, len(hist) + 1 - len(prefix))
                    if on_state:
                        on_state(live, model2, hist + [op])
                    if len(hist) + 1 - len(prefix) >= 2:
                        res.nontrivial += 1
                    res.sample({"history": hist + [op]}, 2)
            if max_states and len(seen) > max_states:
                closed = False
                break
        frontier = nxt
        d += 1
    if frontier:
        closed = False   # depth bound hit with unexplored states
    return {"closed": closed and not frontier, "max_depth": max_depth, "distinct_states": len(seen)}
