"""C18 - read-only operations do not change scenarios or planning problems.  E1 in which every edge must be a self-loop.

Start states: scenarios built from specs (base scenario and k<=1 variants that matter here: point-mass trajectories given as
CustomState without orientation, PMState trajectories, uncertain states, every obstacle role, goal lanelets as a plain dict covering
only some goal states) plus scenarios READ from XML / protobuf (goal lanelets then live in a defaultdict) plus shipped fixture files.
Operations: ~35 inspecting / exporting calls.  All operation sequences up to the length bound are executed on a freshly built
start state; a deep structural snapshot through public accessors is compared before/after every single operation, and the XML
and protobuf exports of an untouched twin are compared with the exports after the sequence.
"""
import contextlib
import copy
import hashlib
import itertools
import os
import pickle
import re
import tempfile

from mc.core import Result
from mc import roundtrip, snap, spec, speclib

PROPERTY = "C18"
RULE = ("all sequences of read-only operations up to the length bound (quick: all single operations and all ordered pairs over a core of 14 operations; "
        "thorough: all ordered pairs of all operations and all triples over an 8-operation core) from every start state; non-trivial = sequences of "
        "length >= 2; distinct by construction")
ASSUMPTIONS = ["hash() raising is C12's business and ignored here", "the snapshot covers every public attribute reachable through accessors incl. the declared "
               "attribute list and class of every state, dict key sets and dict types of goal lanelet tables, lanelet registries, cached nothing",
               "exports are compared with the date stamp masked; scenarios the XML writer cannot express skip the XML export comparison"]


def snapshot(sc, pps):
    snap.RECT_VERTICES = False
    s = {"scenario": snap.scenario(sc, registries=True), "pps": snap.planning_problem_set(pps)}
    # additionally: state objects' own attribute listing and the id pool as seen through generate-free public API
    # behavioural probes: a read-only operation must not break or change what later queries answer
    import numpy as np
    try:
        s["probe:find_lanelet_by_position"] = [sorted(int(i) for i in r) for r in sc.lanelet_network.find_lanelet_by_position(
            [np.array([5.0, 1.5]), np.array([30.0, 2.0]), np.array([10.0, 5.0])])]
    except Exception as e:
        s["probe:find_lanelet_by_position"] = "raises:" + type(e).__name__
    try:
        s["probe:occupancy"] = [None if o.occupancy_at_time(1) is None else snap.shape(o.occupancy_at_time(1).shape) for o in sc.obstacles]
    except Exception as e:
        s["probe:occupancy"] = "raises:" + type(e).__name__
    # the public per-lanelet obstacle tables exactly as they are (which time steps have an entry at all)
    s["registry_entries"] = {l.lanelet_id: sorted((int(t), len(v)) for t, v in (l.dynamic_obstacles_on_lanelet or {}).items()) for l in sc.lanelet_network.lanelets}
    s["states_declared"] = {}
    for o in sc.obstacles:
        p = getattr(o, "prediction", None)
        if p is not None and hasattr(p, "trajectory"):
            s["states_declared"][o.obstacle_id] = [(type(st).__name__, tuple(st.attributes), tuple(st.used_attributes)) for st in p.trajectory.state_list]
    return s


# ------------------------------------------------------------------------------------ start states

def spec_variants():
    V = {}
    V["base"] = speclib.base()
    sp = speclib.base()
    for st in speclib.find(sp, "obstacles", 31)["prediction"]["states"]:
        a = st["attrs"]
        st["cls"] = "CustomState"
        st["attrs"] = {"time_step": a["time_step"], "position": a["position"], "velocity": 3.0, "velocity_y": 1.0}
    V["custom-pm-trajectory"] = sp
    sp = speclib.base()
    for st in speclib.find(sp, "obstacles", 31)["prediction"]["states"]:
        a = st["attrs"]
        st["cls"] = "PMState"
        st["attrs"] = {"time_step": a["time_step"], "position": a["position"], "velocity": 3.0, "velocity_y": -1.0}
    V["pm-trajectory"] = sp
    sp = speclib.base()
    o = speclib.find(sp, "obstacles", 31)
    o["initial_state"]["attrs"]["position"] = ["rect", 2.0, 1.0, 12.5, 1.75, 0.125]
    o["initial_state"]["attrs"]["orientation"] = ["aiv", -0.25, 0.5]
    o["prediction"]["states"][1]["attrs"]["position"] = ["circle", 0.75, 14.25, 1.875]
    o["prediction"]["states"][1]["attrs"]["orientation"] = ["aiv", 0.0, 0.25]
    V["uncertain-states"] = sp
    sp = speclib.base()
    sp["pps"][0]["goal"]["lanelets"] = {0: [1], 1: [2]}
    sp["pps"][0]["goal"]["states"][0]["attrs"]["position"] = speclib.lanelet_goal_shape(sp, [1])
    speclib.find(sp, "lights", 11)["offset"] = 14         # more than two periods of the 2+3+1 cycle
    V["goal-lanelets-all"] = sp
    sp = speclib.base()
    sp["pps"][0]["goal"]["lanelets"] = {1: [2, 1]}
    sp["pps"][0]["goal"]["states"][1]["attrs"]["position"] = speclib.lanelet_goal_shape(sp, [2, 1])
    V["goal-lanelets-unsorted"] = sp
    sp = speclib.base()
    o = speclib.find(sp, "obstacles", 30)
    o.pop("initial_signal_state", None); o.pop("signal_series", None)
    sp["location"] = None
    # everything optional left at the constructor defaults: unset optional initial-state attributes, a lanelet without types / users / markings
    for ob in sp["obstacles"]:
        if "initial_state" in ob:
            for k in ("acceleration", "yaw_rate", "slip_angle"):
                ob["initial_state"]["attrs"].pop(k, None)
    sp["pps"][0]["initial_state"]["attrs"].pop("acceleration", None)
    l3 = speclib.find(sp, "lanelets", 3)
    for k in ("types", "users_bidirectional", "users_one_way", "mark_left", "mark_right"):
        l3.pop(k, None)
    V["defaults"] = sp
    # one traffic light per direction value on the incoming lanelet of the intersection, whose incoming element has left and straight successors
    # (the renderer colours the successors the light is valid for) + a goal made of several separate regions without lanelet references
    sp = speclib.base()
    dirs = ["RIGHT", "STRAIGHT", "LEFT", "LEFT_STRAIGHT", "STRAIGHT_RIGHT", "LEFT_RIGHT", "ALL"]
    for i, d in enumerate(dirs):
        sp["lights"].append({"id": 12 + i, "position": [19.0 + 0.25 * i, 5.0], "cycle": [("GREEN", 2), ("RED", 2), ("RED_YELLOW", 1)], "offset": i % 3, "active": True, "direction": d})
    speclib.find(sp, "lanelets", 1)["lights"] = [12 + i for i in range(len(dirs))]
    speclib.find(sp, "intersections", 20)["incomings"][0].update(right=[], straight=[2], left=[3])
    sp["pps"][0]["goal"]["lanelets"] = {}
    sp["pps"][0]["goal"]["states"][1]["attrs"]["position"] = ["group", [["rect", 2.0, 2.0, 30.0, 2.0, 0.0], ["circle", 1.5, 35.0, 2.5], ["poly", [[38.0, 1.0], [40.0, 1.0], [40.0, 4.0], [38.0, 4.0]]]]]
    V["directed-lights+group-goal"] = sp
    # a ring: 1 -> 2 -> 1 (and 3 -> 3's neighbour untouched): successor / predecessor searches meet lanelets again
    sp = speclib.base()
    speclib.find(sp, "lanelets", 2)["succ"] = [1]
    speclib.find(sp, "lanelets", 1)["pred"] = [2]
    V["ring-road"] = sp
    return V


STARTS = ["base", "assigned:base", "directed-lights+group-goal", "ring-road", "goal-lanelets-unsorted", "custom-pm-trajectory", "pm-trajectory", "uncertain-states", "goal-lanelets-all", "defaults", "read-xml:base", "read-pb:base", "read-pb:custom-pm-trajectory",
          "file:test_reading_all.xml", "file:test_reading_intersection_traffic_sign.xml", "file:test_reading_pm_state.xml", "file:USA_Lanker-1_1_T-1.xml"]


def make_start(name, tmpdir):
    """-> (scenario, planning problem set), fresh objects on every call"""
    if name.startswith("file:"):
        import commonroad
        path = os.path.join(os.path.dirname(os.path.dirname(commonroad.__file__)), "tests", "test_scenarios", name[5:])
        from commonroad.common.file_reader import CommonRoadFileReader
        return CommonRoadFileReader(path).open()
    if name.startswith("assigned:"):
        # the obstacles have been assigned to the lanelets: every lanelet carries its registry of static and dynamic obstacles
        sp_ = copy.deepcopy(spec_variants()[name[9:]])
        # (+ a parked vehicle and a crossing vehicle that are on the successor lanelet 2 only)
        sp_["obstacles"].append({"role": "static", "id": 37, "type": "PARKED_VEHICLE", "shape": ["rect", 4.0, 1.5, 0.0, 0.0, 0.0], "initial_state": spec.init_state(x=30.0, y=2.25, o=0.04, v=0.0)})
        sp_["obstacles"].append({"role": "dynamic", "id": 38, "type": "CAR", "shape": ["rect", 4.0, 1.5, 0.0, 0.0, 0.0], "initial_state": spec.init_state(x=34.0, y=2.5, o=0.05, v=5.0),
                                 "prediction": {"k": "trajectory", "t0": 1, "shape": ["rect", 4.0, 1.5, 0.0, 0.0, 0.0], "states": [speclib.ks(1, 35.0, 2.5, 0.05), speclib.ks(2, 36.0, 2.6, 0.05)]}})
        sc, pps = spec.build(sp_)
        from commonroad.prediction.prediction import SetBasedPrediction
        sc.assign_obstacles_to_lanelets(obstacle_ids={o.obstacle_id for o in sc.static_obstacles + sc.dynamic_obstacles if not isinstance(getattr(o, "prediction", None), SetBasedPrediction)})
        return sc, pps
    if name.startswith("read-"):
        fmt, v = name[5:].split(":")
        sc, pps = spec.build(spec_variants()[v])
        fn = os.path.join(tmpdir, f"start_{os.getpid()}_{fmt}_{v}.{fmt}")
        if not os.path.exists(fn):
            roundtrip.write(sc, pps, fmt, fn, 6)
        return roundtrip.read(fmt, fn)
    return spec.build(spec_variants()[name])


# ------------------------------------------------------------------------------------ operations

def _ks(t, x, y, o, v):
    import numpy as np
    from commonroad.scenario.state import KSState
    return KSState(time_step=t, position=np.array([x, y]), orientation=o, velocity=v, steering_angle=0.0)


def _inner_points(shape):
    """one point strictly inside every member region of a shape (in member order)"""
    from commonroad.geometry.shape import ShapeGroup, Polygon
    if shape is None or not hasattr(shape, "contains_point"):
        return []
    if isinstance(shape, ShapeGroup):
        return [p for m in shape.shapes for p in _inner_points(m)]
    if isinstance(shape, Polygon):
        c = shape.shapely_object.representative_point()
        return [[float(c.x), float(c.y)]]
    return [[float(shape.center[0]), float(shape.center[1])]]


def ops():
    import numpy as np
    O = {}

    def occupancies(sc, pps):
        for o in sc.obstacles:
            for t in range(0, 5):
                occ = o.occupancy_at_time(t)
                if occ is not None:
                    pts_ = _inner_points(occ.shape)
                    for pt in pts_[::-1] + pts_:
                        occ.shape.contains_point(np.array(pt))
    O["obstacle.occupancy_at_time"] = occupancies

    def states(sc, pps):
        for o in sc.dynamic_obstacles + sc.static_obstacles:
            for t in range(0, 5):
                o.state_at_time(t)
    O["obstacle.state_at_time"] = states

    def occ_set(sc, pps):
        for o in sc.dynamic_obstacles:
            if o.prediction is not None:
                _ = o.prediction.occupancy_set
                o.prediction.occupancy_at_time_step(1)
    O["prediction.occupancy_set"] = occ_set
    O["scenario.occupancies_at_time_step"] = lambda sc, pps: [sc.occupancies_at_time_step(t) for t in range(0, 4)]
    O["scenario.obstacle_states_at_time_step"] = lambda sc, pps: [sc.obstacle_states_at_time_step(t) for t in range(0, 4)]

    def filters(sc, pps):
        from commonroad.scenario.obstacle import ObstacleRole, ObstacleType
        from commonroad.common.util import Interval
        sc.obstacles_by_role_and_type(ObstacleRole.DYNAMIC, ObstacleType.CAR)
        sc.obstacles_by_role_and_type(None, None)
        sc.obstacles_by_position_intervals([Interval(-100, 100), Interval(-100, 100)], tuple(ObstacleRole), 1)
        for o in sc.obstacles:
            sc.obstacle_by_id(o.obstacle_id)
    O["scenario.obstacle-filters"] = filters

    def lookups(sc, pps):
        from commonroad.geometry.shape import Rectangle, Circle
        net = sc.lanelet_network
        pts = [np.array([5.0, 1.5]), np.array([30.0, 2.0]), np.array([-50.0, 0.0])]
        net.find_lanelet_by_position(pts)
        net.find_lanelet_by_shape(Rectangle(4.0, 2.0, np.array([20.0, 2.0]), 0.3))
        net.find_lanelet_by_shape(Circle(2.0, np.array([5.0, 3.0])))
        net.lanelets_in_proximity(np.array([10.0, 2.0]), 5.0)
        for l in net.lanelets[:5]:
            l.contains_points(np.array(pts)); _ = l.distance; _ = l.inner_distance; _ = l.polygon.vertices
            l.interpolate_position(float(l.distance[-1]) / 2)
            l.find_lanelet_successors_in_range(net, 30.0); l.find_lanelet_predecessors_in_range(net, 30.0)
            l.find_lanelet_successors_in_range(net, 1000.0); l.find_lanelet_predecessors_in_range(net, 1000.0)
        net.map_obstacles_to_lanelets(sc.static_obstacles)
        for l in net.lanelets[:5]:
            for t in (0, 1, 2, 7, 50):
                l.dynamic_obstacle_by_time_step(t)
            _ = l.static_obstacles_on_lanelet
    O["lanelet_network.lookups"] = lookups

    def merges(sc, pps):
        # queries that BUILD new lanelets from the network's lanelets (merged routes); the network itself must stay as it is
        from commonroad.scenario.lanelet import Lanelet
        net = sc.lanelet_network
        for l in net.lanelets[:6]:
            Lanelet.all_lanelets_by_merging_successors_from_lanelet(l, net, 200.0)
            for sid in l.successor[:2]:
                s_ = net.find_lanelet_by_id(sid)
                if s_ is not None:
                    Lanelet.merge_lanelets(l, s_)
            for pid in l.predecessor[:1]:
                p_ = net.find_lanelet_by_id(pid)
                if p_ is not None:
                    Lanelet.merge_lanelets(p_, l)
    O["lanelet.merged-routes"] = merges

    def lights(sc, pps):
        for t in sc.lanelet_network.traffic_lights:
            if t.traffic_light_cycle is not None and t.traffic_light_cycle.cycle_elements:
                for ts in range(-2, 12):
                    t.get_state_at_time_step(ts)
    O["traffic_light.get_state_at_time_step"] = lights

    def goal_checks(sc, pps):
        from commonroad.scenario.state import PMState
        from commonroad.scenario.trajectory import Trajectory
        for p in pps.planning_problem_dict.values():
            for st in (_ks(6, 38.0, 2.5, 0.1, 5.0), _ks(9, 30.0, 2.0, 0.0, 1.0)):
                try:
                    p.goal.is_reached(st)
                except ValueError:
                    pass
            try:
                p.goal.is_reached(PMState(time_step=6, position=np.array([38.0, 2.5]), velocity=4.0, velocity_y=1.0))
            except ValueError:
                pass
            try:
                p.goal_reached(Trajectory(5, [_ks(5, 37.0, 2.5, 0.1, 5.0), _ks(6, 38.0, 2.5, 0.1, 5.0)]))
            except ValueError:
                pass
            # states placed inside every region the goal itself names (each member of a group, last member first), at a time inside the goal's interval
            for g in p.goal.state_list:
                ts = g.time_step.start if hasattr(g.time_step, "start") else g.time_step
                pts_ = _inner_points(getattr(g, "position", None))
                for pt in pts_[::-1] + pts_:        # last member first, then in member order (a self-organising container ends up permuted)
                    for st in (_ks(int(ts), float(pt[0]), float(pt[1]), 0.0, 5.0), PMState(time_step=int(ts), position=np.array(pt), velocity=4.0, velocity_y=0.5)):
                        try:
                            p.goal.is_reached(st)
                        except ValueError:
                            pass
                    try:
                        p.goal_reached(Trajectory(int(ts) - 1, [_ks(int(ts) - 1, float(pt[0]) - 0.5, float(pt[1]), 0.0, 5.0), _ks(int(ts), float(pt[0]), float(pt[1]), 0.0, 5.0)]))
                    except ValueError:
                        pass
    O["goal.is_reached+goal_reached"] = goal_checks

    def equality(sc, pps):
        _ = (sc == sc); _ = (pps == pps)
        for o in sc.obstacles:
            _ = (o == o)
        for l in sc.lanelet_network.lanelets[:5]:
            _ = (l == l)
        for f in (sc, pps, sc.lanelet_network):
            try:
                hash(f)
            except TypeError:
                pass
        for o in sc.obstacles:
            try:
                hash(o)
            except TypeError:
                pass
        str(sc); str(sc.lanelet_network); repr(sc.obstacles[:2])
    O["eq+hash+str"] = equality
    O["copy.deepcopy"] = lambda sc, pps: (copy.deepcopy(sc), copy.deepcopy(pps))
    O["copy.deepcopy(lanelet_network)"] = lambda sc, pps: copy.deepcopy(sc.lanelet_network)
    O["pickle"] = lambda sc, pps: (pickle.loads(pickle.dumps(sc)), pickle.loads(pickle.dumps(pps)))

    def render(sc, pps):
        import matplotlib
        matplotlib.use("Agg")
        import matplotlib.pyplot as plt
        from commonroad.visualization.mp_renderer import MPRenderer
        rnd = MPRenderer()
        sc.draw(rnd)
        pps.draw(rnd)
        rnd.render()
        plt.close("all")
    O["draw+render"] = render

    def render_t2(sc, pps):
        import matplotlib
        matplotlib.use("Agg")
        import matplotlib.pyplot as plt
        from commonroad.visualization.mp_renderer import MPRenderer
        from commonroad.visualization.draw_params import MPDrawParams
        rnd = MPRenderer()
        dp = MPDrawParams()
        dp.time_begin = 2
        dp.time_end = 4
        dp.dynamic_obstacle.draw_icon = True
        dp.dynamic_obstacle.trajectory.draw_trajectory = True
        dp.dynamic_obstacle.occupancy.draw_occupancies = True
        dp.dynamic_obstacle.draw_signals = True
        sc.draw(rnd, dp)
        rnd.render()
        plt.close("all")
    O["draw+render(t=2,icons,trajectory,occupancies,signals)"] = render_t2

    def render_all_on(sc, pps):
        # every boolean switch of the draw parameters that is off by default is switched on (traffic signs, lights, labels, ids, directions, ...)
        import dataclasses
        import matplotlib
        matplotlib.use("Agg")
        import matplotlib.pyplot as plt
        from commonroad.visualization.mp_renderer import MPRenderer
        from commonroad.visualization.draw_params import MPDrawParams, BaseParam

        def walk(g):
            for f in dataclasses.fields(g):
                v = getattr(g, f.name)
                if isinstance(v, BaseParam):
                    walk(v)
                elif isinstance(v, bool) and not v and not f.name.startswith("_") and f.name not in ("antialiased", "axis_visible"):
                    object.__setattr__(g, f.name, True)
        dp = MPDrawParams()
        walk(dp)
        dp.time_begin = 1
        dp.time_end = 3
        rnd = MPRenderer()
        try:
            sc.draw(rnd, dp)
            pps.draw(rnd, dp)
            rnd.render()
        except Exception:
            pass            # whether every combination of switches can be rendered is C19's question; here only what the attempt leaves behind
        plt.close("all")
    O["draw+render(every-switch-on)"] = render_all_on

    def render_focused(sc, pps):
        # a renderer that follows one obstacle inside fixed plot limits (as the video helpers do): every obstacle in turn, at two time steps
        import matplotlib
        matplotlib.use("Agg")
        import matplotlib.pyplot as plt
        from commonroad.visualization.mp_renderer import MPRenderer
        from commonroad.visualization.draw_params import MPDrawParams
        for o in list(sc.obstacles):
            for t in (0, 1):
                rnd = MPRenderer(plot_limits=[-20.0, 20.0, -10.0, 10.0], focus_obstacle=o)
                dp = MPDrawParams()
                dp.time_begin = t
                dp.time_end = t + 2
                try:
                    sc.draw(rnd, dp)
                    rnd.render()
                except Exception:
                    pass        # (totality is C19's question)
                plt.close("all")
    O["draw+render(focus-obstacle,plot-limits)"] = render_focused

    def derive_networks(sc, pps):
        # building NEW networks from this one's lanelets (the library copies them) leaves this one as it is
        from commonroad.scenario.lanelet import LaneletNetwork
        from commonroad.geometry.shape import Rectangle
        net = sc.lanelet_network
        LaneletNetwork.create_from_lanelet_list(net.lanelets)
        LaneletNetwork.create_from_lanelet_list(net.lanelets, cleanup_ids=False)
        LaneletNetwork.create_from_lanelet_network(net)
        LaneletNetwork.create_from_lanelet_network(net, Rectangle(30.0, 10.0, np.array([10.0, 2.0]), 0.0))
    O["lanelet_network.derive-new-networks"] = derive_networks

    def write(fmt, scenario_only=False):
        def f(sc, pps, fmt=fmt):
            d = tempfile.mkdtemp(prefix="c18w_")
            try:
                roundtrip.write(sc, pps, fmt, os.path.join(d, "w." + fmt), 4, scenario_only=scenario_only)
            finally:
                import shutil
                shutil.rmtree(d, ignore_errors=True)
        return f
    O["write-xml"] = write("xml")
    O["write-pb"] = write("pb")
    O["write_scenario-xml"] = write("xml", True)
    O["write_scenario-pb"] = write("pb", True)

    def validity(sc, pps):
        from commonroad.common.file_writer import CommonRoadFileWriter
        d = tempfile.mkdtemp(prefix="c18v_")
        try:
            fn = os.path.join(d, "v.xml")
            roundtrip.write(sc, pps, "xml", fn, 4)
            try:
                CommonRoadFileWriter.check_validity_of_commonroad_file(open(fn, "rb").read())
            except Exception:
                pass
        finally:
            import shutil
            shutil.rmtree(d, ignore_errors=True)
    O["write-xml+check_validity"] = validity
    return O


CORE = ["obstacle.occupancy_at_time", "prediction.occupancy_set", "scenario.occupancies_at_time_step", "lanelet_network.lookups", "goal.is_reached+goal_reached", "eq+hash+str",
        "copy.deepcopy", "pickle", "draw+render", "write-xml", "write-pb", "write_scenario-pb", "traffic_light.get_state_at_time_step", "scenario.obstacle-filters"]
CORE3 = ["prediction.occupancy_set", "goal.is_reached+goal_reached", "copy.deepcopy", "pickle", "draw+render", "write-xml", "write-pb", "lanelet_network.lookups"]


def exports(sc, pps, tmpdir):
    """masked XML and protobuf export (None where the writer cannot express / raises)"""
    out = {}
    for fmt in ("xml", "pb"):
        fn = os.path.join(tmpdir, f"e_{os.getpid()}.{fmt}")
        try:
            roundtrip.write(sc, pps, fmt, fn, 6)
            data = open(fn, "rb").read()
            from mc.checks.c15 import mask
            out[fmt] = hashlib.sha256(mask(fmt, data)).hexdigest()
        except Exception:
            out[fmt] = None
        finally:
            if os.path.exists(fn):
                os.remove(fn)
    return out


def run_sequence(start, seq, res, tmpdir, ref_export):
    O = ops()
    case = {"start": start, "ops": list(seq)}
    sc, pps = make_start(start, tmpdir)
    s_prev = snapshot(sc, pps)
    res.states += 1
    if len(seq) >= 2:
        res.nontrivial += 1
    for i, name in enumerate(seq):
        res.transitions += 1; res.evals += 1
        try:
            O[name](sc, pps)
        except Exception as e:
            # totality of the operations is other properties' business (C19 for rendering, C03 for writing ...): here only state changes count
            res.outcomes[f"op-raised:{name}:{type(e).__name__}"] += 1
        s_now = snapshot(sc, pps)
        if s_now != s_prev:
            d = next(iter(snap.diff(s_prev, s_now, tol_point=0.0, angle_mod=False)), ("?", "changed", ""))
            p = re.sub(r"^\.scenario\.", "", snap.strip_index(d[0]))
            res.violation(f"C18|{name}|changed:{p}:{d[1]}", f"start {start}, sequence {list(seq[:i + 1])}: {d[0]}: {d[2]}", case)
            return
        s_prev = s_now
    if ref_export is not None:
        ex = exports(sc, pps, tmpdir)
        for fmt in ("xml", "pb"):
            if ref_export[fmt] is not None and ex[fmt] != ref_export[fmt]:
                res.violation(f"C18|{seq[-1]}|export-differs:{fmt}", f"start {start}, sequence {list(seq)}: the {fmt} export after the sequence differs from the export of an untouched twin", case)
    res.outcomes["self-loop"] += 1


def sequences(tier):
    names = list(ops())
    seqs = [(n,) for n in names]
    if tier == "quick":
        seqs += [p for p in itertools.product(CORE, repeat=2)]
    else:
        seqs += [p for p in itertools.product(names, repeat=2)]
        seqs += [p for p in itertools.product(CORE3, repeat=3)]
    return seqs


def describe(tier):
    return {"start_states": STARTS, "operations": list(ops()), "core": CORE, "core3": CORE3, "sequences": len(sequences(tier)), "exhaustive": True}


def units(tier):
    u = []
    seqs = sequences(tier)
    n = 12 if tier == "quick" else 48
    for s in STARTS:
        for sh in range(n):
            u.append({"start": s, "shard": sh, "of": n})
    return u


def run_unit(unit, tier):
    res = Result()
    d = tempfile.mkdtemp(prefix="c18_")
    try:
        sc, pps = make_start(unit["start"], d)
        ref = exports(sc, pps, d)
        # the reference itself must be stable (two untouched twins export identically)
        sc2, pps2 = make_start(unit["start"], d)
        ref2 = exports(sc2, pps2, d)
        for fmt in ("xml", "pb"):
            if ref[fmt] != ref2[fmt]:
                ref[fmt] = None
                res.outcomes[f"export-not-reproducible:{fmt}"] += 1
        for i, seq in enumerate(sequences(tier)):
            if i % unit["of"] != unit["shard"]:
                continue
            run_sequence(unit["start"], seq, res, d, ref)
            res.sample({"start": unit["start"], "ops": list(seq)}, 2)
    finally:
        import shutil
        shutil.rmtree(d, ignore_errors=True)
    return res


def replay(case):
    res = Result()
    d = tempfile.mkdtemp(prefix="c18_")
    sc, pps = make_start(case["start"], d)
    ref = exports(sc, pps, d)
    run_sequence(case["start"], tuple(case["ops"]), res, d, ref)
    import shutil
    shutil.rmtree(d, ignore_errors=True)
    return [(s, dd) for s, dd, _ in res.violations]


def canaries():
    from commonroad.common.writer import file_writer_protobuf as wpb
    from commonroad.scenario import lanelet as ln

    @contextlib.contextmanager
    def pb_writer_indexes_goal_lanelet_table():
        o = wpb.PlanningProblemMessage.create_message

        def bad(cls, planning_problem):
            tbl = planning_problem.goal.lanelets_of_goal_position
            if tbl is not None:
                for i in range(len(planning_problem.goal.state_list)):
                    try:
                        tbl[i]
                    except KeyError:
                        pass
            return o.__func__(cls, planning_problem)
        wpb.PlanningProblemMessage.create_message = classmethod(bad)
        try:
            yield
        finally:
            wpb.PlanningProblemMessage.create_message = o

    @contextlib.contextmanager
    def getstate_deletes_index_from_the_live_network():
        o = ln.LaneletNetwork.__getstate__

        def bad(self):
            state = self.__dict__
            state.pop("_strtee", None)
            return dict(state)
        ln.LaneletNetwork.__getstate__ = bad
        try:
            yield
        finally:
            ln.LaneletNetwork.__getstate__ = o
    return [("protobuf-writer-indexes-a-defaultdict-goal-table", pb_writer_indexes_goal_lanelet_table),
            ("__getstate__-removes-the-spatial-index-from-the-live-network", getstate_deletes_index_from_the_live_network)]
