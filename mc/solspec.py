"""Spec -> real Solution objects (shared by C13 and C14).  A solution spec is plain JSON:
 {"sid": {...ScenarioID kwargs...}, "pps": [{"id": 1, "model": "KS", "vtype": 2, "cost": "JB1", "kind": "KS",
          "t0": 0, "states": [[v0, v1, ...], ...]}], "ct": None|number, "proc": None|str, "date": None|[Y,M,D,h,m,s,us]}
States are value vectors in the order of solution.StateFields[kind] with position expanded to x,y and without time.
Numbers are given as ["f", hex] (python float), ["n", hex] (numpy.float64) or ["i", int].
"""
import datetime


def num(x):
    import numpy as np
    k, v = x
    if k == "f":
        return float.fromhex(v)
    if k == "n":
        return np.float64(float.fromhex(v))
    if k == "i":
        return int(v)
    raise ValueError(x)


def enc(v, kind="f"):
    if kind == "i":
        return ["i", int(v)]
    return [kind, float(v).hex()]


def state_classes():
    from commonroad.scenario import state as st
    return {"PM": st.PMState, "ST": st.STState, "KS": st.KSState, "KST": st.KSTState, "MB": st.MBState,
            "Input": st.InputState, "PMInput": st.PMInputState}


def fields(kind):
    """scalar slots of a state of this kind: list of (field, index or None)"""
    from commonroad.common.solution import StateFields
    out = []
    for f in StateFields[kind].value:
        if f == "time_step":
            continue
        if f == "position":
            out += [("position", 0), ("position", 1)]
        else:
            out.append((f, None))
    return out


def build_state(kind, t, vec, pos_dtype="float"):
    import numpy as np
    cls = state_classes()[kind]
    kw = {"time_step": t}
    fl = fields(kind)
    assert len(vec) == len(fl), (kind, len(vec), len(fl))
    pos = [None, None]
    for (f, i), v in zip(fl, vec):
        if f == "position":
            pos[i] = num(v)
        else:
            kw[f] = num(v)
    if pos[0] is not None:
        kw["position"] = np.array(pos, dtype=(int if pos_dtype == "int" else float))
    return cls(**kw)


def build_pps(p):
    from commonroad.common.solution import CostFunction, PlanningProblemSolution, VehicleModel, VehicleType
    from commonroad.scenario.trajectory import Trajectory
    states = [build_state(p["kind"], p["t0"] + i, vec, p.get("pos_dtype", "float")) for i, vec in enumerate(p["states"])]
    if p.get("order"):
        # the state LIST is given in another order than the time steps (state i keeps time step t0 + i)
        states = [states[j] for j in p["order"]]
    traj = Trajectory(states[0].time_step, states)
    if p.get("retraj"):
        # the solution is constructed with a trajectory of the OTHER kind its vehicle model admits (state trajectory <-> input vector, other
        # length, other start) and the real trajectory is assigned through the public setter afterwards
        others = [k for k in kinds_for_model(p["model"]) if k != p["kind"]]
        if others:
            ph = [build_state(others[0], 3 + i, default_vec(others[0], 0.25 * i)) for i in range(2)]
            sol = PlanningProblemSolution(p["id"], VehicleModel[p["model"]], VehicleType(p["vtype"]), CostFunction[p["cost"]], Trajectory(3, ph))
            sol.trajectory = traj
            return sol
    return PlanningProblemSolution(p["id"], VehicleModel[p["model"]], VehicleType(p["vtype"]), CostFunction[p["cost"]], traj)


def build_sid(s):
    from commonroad.scenario.scenario import ScenarioID
    return ScenarioID(cooperative=s.get("coop", False), country_id=s.get("country", "ZAM"), map_name=s.get("map", "Test"),
                      map_id=s.get("map_id", 1), configuration_id=s.get("conf"), obstacle_behavior=s.get("beh"),
                      prediction_id=s.get("pred"), scenario_version=s.get("ver", "2020a"))


def build_solution(spec):
    from commonroad.common.solution import Solution
    d = spec.get("date")
    date = None if d is None else datetime.datetime(*d)
    pps = [build_pps(dict(p, id=900 + i)) if spec.get("relabel") else build_pps(p) for i, p in enumerate(spec["pps"])]
    return Solution(build_sid(spec["sid"]), pps, date=date,
                    computation_time=None if spec.get("ct") is None else num(spec["ct"]),
                    processor_name=spec.get("proc"))


def admissible_triples():
    """all (model, vtype, cost) the library admits, from its own tables"""
    from commonroad.common.solution import SupportedCostFunctions, VehicleModel, VehicleType
    out = []
    for m in VehicleModel:
        for vt in VehicleType:
            for c in SupportedCostFunctions[m.name].value:
                out.append((m.name, vt.value, c.name))
    return out


def default_vec(kind, salt=0):
    return [enc(0.5 * (j + 1) + salt) for j, _ in enumerate(fields(kind))]


def kinds_for_model(model):
    """trajectory kinds valid for a vehicle model (state trajectory of the model, plus its input vector)"""
    k = [model]
    if model in ("KS", "ST", "MB"):
        k.append("Input")
    if model == "PM":
        k.append("PMInput")
    return k
