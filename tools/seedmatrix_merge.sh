#!/bin/bash
# joins the RESULTS.<i>.md parts written by sharded runs of seedmatrix.sh into seeded/RESULTS.md
cd /verif/seeded
{ head -4 $(ls RESULTS.[0-9]*.md | head -1); cat RESULTS.[0-9]*.md | grep '^| C' | sort -t'|' -k2,2V; echo; echo "demo unchanged must be rc=0, demo changed must be non-zero for a valid seed."; } > RESULTS.md
rm -f RESULTS.[0-9]*.md
grep -c '^| C' RESULTS.md
