"""C02 - protobuf write->read is lossless.  E2-dev: all specs within k deviations of the rich base scenario.

Every spec is built into fresh real objects, snapshotted through public accessors, written with the real protobuf writer, read
back with the real reader and snapshotted again; reals must be bit-identical, discrete data identical, absent optional data absent.
"""
import contextlib
import os
import tempfile

from mc.core import Result
from mc import dev, roundtrip, spec, speclib

PROPERTY = "C02"
FMT = "pb"
RULE = ("all specs within k deviations (quick: k<=1 full menu + k=2 on a 1/16 slice of all pairs; thorough: k<=2 over the complete menu) of the "
        "base scenario; menu generated from every library enum member present in the .proto descriptors, optional elements, shape kinds, "
        "state classes, exact/interval/region values, value alphabet, default-argument objects. non-trivial = specs with >=1 deviation; "
        "distinct deviation subsets")
ASSUMPTIONS = ["expected content = public snapshot of the objects built from the spec, taken before writing (C18 checks that writing does not "
               "change them)", "unset attributes of initial states read back as 0 (documented reader default, as in C01); signal_series None == []",
               "derived data (light colour list, lanelet centre line) is compared with the same rules on both sides; set-valued data as sets"]


def describe(tier):
    m = speclib.menu(FMT)
    return {"menu_size": len(m), "slots": len({x[0] for x in m}), "k": 1 if tier == "quick" else 2, "quick_k2_slice": "pairs (i,j) with (i+j)%16==0", "exhaustive": True}


def units(tier):
    n = len(speclib.menu(FMT))
    u = [{"k": 1, "lo": i, "hi": min(n, i + 40)} for i in range(0, n, 40)]
    u.append({"k": 0})
    for sh in range(64):
        u.append({"k": 2, "shard": sh, "of": 64, "slice": 16 if tier == "quick" else 1})
    return u


def check_spec(sp, labels, res, tmpdir, fmt=FMT, precision=4, prop="C02", reuse=False):
    case = {"labels": list(labels), "fmt": fmt, "precision": precision, "reuse": reuse}
    res.evals += 1; res.transitions += 2; res.states += 1
    if labels:
        res.nontrivial += 1
    try:
        sc, pps = spec.build(sp)
    except Exception as e:
        # the constructors reject the spec: outside the quantifier (counted, never silent)
        res.guarded += 1
        res.outcomes[f"spec-rejected-by-constructors:{type(e).__name__}"] += 1
        return None
    s0 = roundtrip.snapshot(sc, pps)
    fn = os.path.join(tmpdir, f"f{os.getpid()}.{'xml' if fmt == 'xml' else 'pb'}")
    try:
        w = roundtrip.write(sc, pps, fmt, fn, precision)
    except Exception as e:
        res.violation(f"{prop}|write|raises:{type(e).__name__}:{_san(e)}", f"{labels}: {e!r}", case)
        return None
    if reuse:
        # the same writer object writes a second file; that file must read back to the same content as well
        from commonroad.common.file_writer import OverwriteExistingFile
        fn2 = fn + ".second"
        try:
            w.write_to_file(fn2, OverwriteExistingFile.ALWAYS)
            sc3, pps3 = roundtrip.read(fmt, fn2)
            res.transitions += 2
            seen2 = set()
            for path, kind, detail in roundtrip.compare(s0, roundtrip.snapshot(sc3, pps3), fmt, precision):
                p, k = roundtrip.classify(path, kind)
                if (p, k) not in seen2:
                    seen2.add((p, k))
                    res.violation(f"{prop}|second-write-with-same-writer|{p}|{k}", f"{list(labels)}: {path}: {detail}", case)
        except Exception as e:
            res.violation(f"{prop}|second-write-with-same-writer|raises:{type(e).__name__}:{_san(e)}", f"{labels}: {e!r}", case)
        finally:
            if os.path.exists(fn2):
                os.remove(fn2)
    try:
        sc2, pps2 = roundtrip.read(fmt, fn)
    except Exception as e:
        res.violation(f"{prop}|read|raises:{type(e).__name__}:{_san(e)}", f"{labels}: {e!r}", case)
        return fn
    s1 = roundtrip.snapshot(sc2, pps2)
    seen = set()
    for path, kind, detail in roundtrip.compare(s0, s1, fmt, precision):
        p, k = roundtrip.classify(path, kind)
        if (p, k) in seen:
            continue
        seen.add((p, k))
        res.violation(f"{prop}|{p}|{k}", f"{list(labels)}: {path}: {detail}", case)
    res.outcomes["roundtrip-compared"] += 1
    if reuse:
        res.transitions += 5
        for sig, detail in roundtrip.reuse_routes(w, sc, pps, sc, pps, fmt, precision, fn, already=seen):
            res.violation(f"{prop}|{sig}", f"{list(labels)}: {detail}", case)
    return fn


def _san(e):
    import re
    return re.sub(r"[^A-Za-z0-9_.]+", "_", str(e))[:50]


def run_unit(unit, tier):
    res = Result()
    M = speclib.menu(FMT)
    base = speclib.base()
    d = tempfile.mkdtemp(prefix="c02_")
    try:
        if unit["k"] == 0:
            check_spec(base, (), res, d, reuse=True)
        elif unit["k"] == 1:
            import copy
            for i in range(unit["lo"], unit["hi"]):
                sp = copy.deepcopy(base)
                if M[i][2](sp) is False:
                    continue
                check_spec(sp, (M[i][1],), res, d, reuse=(i % 8 == 0))
                res.sample({"deviations": [M[i][1]]}, 2)
        else:
            import copy
            n = len(M)
            cnt = 0
            for i in range(n):
                for j in range(i + 1, n):
                    if (i * 31 + j) % unit["of"] != unit["shard"]:
                        continue
                    if unit["slice"] > 1 and (i + j) % unit["slice"]:
                        continue
                    if M[i][0] == M[j][0] or speclib.conflicts(M[i][0], M[j][0]):
                        continue
                    sp = copy.deepcopy(base)
                    try:
                        if M[i][2](sp) is False or M[j][2](sp) is False:
                            continue
                    except (KeyError, IndexError, TypeError, AttributeError):
                        res.outcomes["pair-not-composable"] += 1
                        continue
                    check_spec(sp, (M[i][1], M[j][1]), res, d)
                    cnt += 1
                    res.sample({"deviations": [M[i][1], M[j][1]]}, 2)
    finally:
        import shutil
        shutil.rmtree(d, ignore_errors=True)
    return res


def spec_from_labels(labels, fmt=FMT):
    import copy
    M = {m[1]: m for m in speclib.menu(fmt)}
    sp = copy.deepcopy(speclib.base())
    for l in labels:
        M[l][2](sp)
    return sp


def replay(case):
    res = Result()
    d = tempfile.mkdtemp(prefix="c02_")
    check_spec(spec_from_labels(case["labels"], case.get("fmt", FMT)), tuple(case["labels"]), res, d, case.get("fmt", FMT), case.get("precision", 4),
               reuse=case.get("reuse", False))
    import shutil
    shutil.rmtree(d, ignore_errors=True)
    return [(s, dd) for s, dd, _ in res.violations]


def canaries():
    from commonroad.common.writer import file_writer_protobuf as w

    @contextlib.contextmanager
    def float32():
        import numpy as np
        o = w.FloatExactOrIntervalMessage.create_message

        def bad(cls, value):
            from commonroad.common.util import Interval
            if isinstance(value, Interval):
                return o.__func__(cls, value)
            return o.__func__(cls, float(np.float32(value)))
        w.FloatExactOrIntervalMessage.create_message = classmethod(bad)
        try:
            yield
        finally:
            w.FloatExactOrIntervalMessage.create_message = o

    @contextlib.contextmanager
    def virtual_dropped():
        o = w.TrafficSignMessage.create_message

        def bad(cls, traffic_sign):
            m = o.__func__(cls, traffic_sign)
            m.ClearField("virtual")
            return m
        w.TrafficSignMessage.create_message = classmethod(bad)
        try:
            yield
        finally:
            w.TrafficSignMessage.create_message = o
    return [("float32-rounding-of-exact-state-values", float32), ("sign-virtual-not-written", virtual_dropped)]
