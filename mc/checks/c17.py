"""C17 - traffic-light state follows the cycle definition.  E2-grid, full product.

Space: all cycles with n elements, durations from D, colours from COL (all assignments), offsets from OFF,
every integer t in [-2T-3, 3T+5+offset].  Oracle: list expansion of the cycle.
Each evaluation runs on a *fresh* TrafficLightCycle and, separately, on one cycle object that is queried at
every t in ascending and descending order (the memoised cycle_init_timesteps must not depend on query order).
"""
import contextlib
import itertools

from mc.core import Result

PROPERTY = "C17"
RULE = ("full Cartesian product: cycles (n elements x durations x colours, all assignments) x offsets x every integer "
        "t in [-2T-3, 3T+5+offset]; a case (cycle, offset, t) is non-trivial when the cycle has >=2 distinct colours "
        "(otherwise every answer is the same colour); distinct by construction")
ASSUMPTIONS = ["durations are positive ints and offset >= 0 as the statement requires",
               "the alternative routes to a cycle (append, setters, copies, comparisons, numpy offsets, shared lists, active flag) are run for n <= 3 elements",
               "reference = colour list expanded by duration, index (t - offset) mod T with Python's non-negative mod"]


def _space(tier):
    from commonroad.scenario.traffic_light import TrafficLightState as S
    allc = list(S)
    core = [S.RED, S.GREEN, S.YELLOW]
    if tier == "quick":
        return dict(ns=[1, 2, 3], durs=[1, 2, 3], cols={1: allc, 2: allc, 3: core}, offs=[0, 1, 2, 5])
    return dict(ns=[1, 2, 3, 4], durs=[1, 2, 3, 5], cols={1: allc, 2: allc, 3: core + [S.INACTIVE], 4: core},
                offs=[0, 1, 2, 5, 17])


def describe(tier):
    sp = _space(tier)
    return {"n_elements": sp["ns"], "durations": sp["durs"], "offsets": sp["offs"],
            "colours_per_n": {str(k): [c.name for c in v] for k, v in sp["cols"].items()},
            "t_range": "[-2T-3, 3T+5+offset]", "exhaustive": True}


def units(tier):
    sp = _space(tier)
    out = []
    for n in sp["ns"]:
        for durs in itertools.product(sp["durs"], repeat=n):
            out.append({"n": n, "durs": list(durs)})
    return out


def _tclass(t, off, T, bounds):
    if t < off:
        return "before-offset"
    r = (t - off) % T
    if (t - off) >= T:
        return "later-period-boundary" if r in bounds else "later-period"
    return "boundary" if r in bounds else "inside"


def _routes(durs, cols, off, res, case0, ts, T, expanded, mk):
    from commonroad.scenario.traffic_light import TrafficLightCycle, TrafficLightCycleElement, TrafficLight
    import numpy as np
    # other ways to arrive at the same cycle definition: (a) an empty cycle filled by appending to its element list, while a second cycle is filled
    # the same way with the reversed definition; (b) elements constructed equal to each other (also across two cycles) and then edited through the
    # state / duration setters.  The oracle is the definition the caller supplied, not what the object reports about itself.
    try:
        filled, other = TrafficLightCycle(time_offset=off), TrafficLightCycle(time_offset=off + 1)
        for i, (c, d) in enumerate(zip(cols, durs)):
            filled.cycle_elements.append(TrafficLightCycleElement(c, d))
            other.cycle_elements.append(TrafficLightCycleElement(cols[-1 - i], durs[-1 - i]))
        els_a = [TrafficLightCycleElement(cols[0], durs[0]) for _ in cols]
        els_b = [TrafficLightCycleElement(cols[0], durs[0]) for _ in cols]
        edited, twin = TrafficLightCycle(els_a, time_offset=off), TrafficLightCycle(els_b, time_offset=off)
        for i, (c, d) in enumerate(zip(cols, durs)):
            els_a[i].state = c; els_a[i].duration = d
        for t in ts:
            exp = expanded[(t - off) % T]
            exp_twin = cols[0]
            exp_other = expanded[::-1][(t - off - 1) % T]
            for lab, obj, e in (("filled-by-append", filled, exp), ("second-cycle-filled-by-append", other, exp_other), ("elements-edited-through-setters", edited, exp),
                                ("twin-of-edited-cycle", twin, exp_twin)):
                res.evals += 1; res.transitions += 1
                got = obj.get_state_at_time_step(t)
                if got != e:
                    res.violation(f"C17|n={len(durs)}|route:{lab}|wrong-state", f"{case0} t={t}: got {got} expected {e}", dict(case0, t=t))
                    break
    except Exception as e:
        res.violation(f"C17|n={len(durs)}|route|raises:{type(e).__name__}", repr(e), dict(case0))
    # (e) cycles and lights obtained by copying (shallow, deep, pickled) instead of constructing
    try:
        import copy as _copy, pickle as _pickle
        src_c, src_l = mk(), TrafficLight(10, np.array([0.0, 0.0]), mk())
        copies = [("copy(cycle)", _copy.copy(src_c)), ("deepcopy(cycle)", _copy.deepcopy(src_c)), ("pickle(cycle)", _pickle.loads(_pickle.dumps(src_c))),
                  ("deepcopy(light)", _copy.deepcopy(src_l)), ("pickle(light)", _pickle.loads(_pickle.dumps(src_l))), ("copy(light)", _copy.copy(src_l))]
        for t in ts:
            exp = expanded[(t - off) % T]
            for lab, obj in copies:
                res.evals += 1; res.transitions += 1
                got = obj.get_state_at_time_step(t)
                if got != exp:
                    res.violation(f"C17|n={len(durs)}|route:{lab}|wrong-state", f"{case0} t={t}: got {got} expected {exp}", dict(case0, t=t))
                    break
        # the deep copy / the unpickled copy is a cycle of its own: its elements are edited through the setters (colours reversed, durations
        # rotated) - the copy follows its new definition, the source keeps the definition it was constructed with
        for lab, maker in (("deepcopy", _copy.deepcopy), ("pickle", lambda o_: _pickle.loads(_pickle.dumps(o_)))):
            src2, srcl = mk(), TrafficLight(12, np.array([0.0, 0.0]), mk())
            cp, cpl = maker(src2), maker(srcl)
            ncols, ndurs = list(cols)[::-1], list(durs)[1:] + list(durs)[:1]
            for obj in (cp, cpl.traffic_light_cycle):
                for el, c_, d_ in zip(obj.cycle_elements, ncols, ndurs):
                    el.state = c_; el.duration = d_
            nexp = [c_ for c_, d_ in zip(ncols, ndurs) for _ in range(d_)]
            for t in ts:
                for lab2, obj, ex in ((f"source-of-an-edited-{lab}(cycle)", src2, expanded), (f"source-of-an-edited-{lab}(light)", srcl, expanded),
                                      (f"edited-{lab}(cycle)", cp, nexp), (f"edited-{lab}(light)", cpl, nexp)):
                    res.evals += 1; res.transitions += 1
                    got = obj.get_state_at_time_step(t)
                    if got != ex[(t - off) % T]:
                        res.violation(f"C17|n={len(durs)}|route:{lab2}|wrong-state", f"{case0} t={t}: got {got} expected {ex[(t - off) % T]}", dict(case0, t=t))
                        break
                else:
                    continue
                break
    except Exception as e:
        res.violation(f"C17|n={len(durs)}|route:copies|raises:{type(e).__name__}", repr(e), dict(case0))
    # (g) the offset handed over in the integer types a caller may hold it in (numpy integers from an array or a sum)
    try:
        reps = [("numpy.int64", np.int64(off)), ("numpy.int32", np.int32(off)), ("numpy-array-element", np.array([off, 0])[0]), ("sum-of-numpy-integers", np.array([off - 1, 1]).sum())]
        objs = [(nm, TrafficLightCycle([TrafficLightCycleElement(c, d) for c, d in zip(cols, durs)], time_offset=v)) for nm, v in reps]
        late = mk(); late.time_offset = np.int64(off + 1)
        for t in ts:
            for nm, obj in objs:
                res.evals += 1; res.transitions += 1
                got = obj.get_state_at_time_step(t)
                if got != expanded[(t - off) % T]:
                    res.violation(f"C17|n={len(durs)}|offset-as:{nm}|wrong-state", f"{case0} t={t}: got {got} expected {expanded[(t - off) % T]}", dict(case0, t=t))
                    objs = [o_ for o_ in objs if o_[0] != nm]
                    break
            got = late.get_state_at_time_step(t)
            if late is not None and got != expanded[(t - off - 1) % T]:
                res.violation(f"C17|n={len(durs)}|offset-as:numpy.int64(assigned-through-the-setter)|wrong-state", f"{case0} t={t}: got {got} expected {expanded[(t - off - 1) % T]}", dict(case0, t=t))
                break
    except Exception as e:
        res.violation(f"C17|n={len(durs)}|offset-representations|raises:{type(e).__name__}", repr(e), dict(case0))
    # (c) a light is given a cycle that EQUALS the one it has but is another object, and that object is edited afterwards: the light follows the
    #     cycle it was given.  (d) two cycles constructed from one Python list; one of them is then assigned a new element list: the other keeps
    #     its definition
    try:
        light2 = TrafficLight(9, np.array([0.0, 0.0]), mk())
        light2.get_state_at_time_step(off)
        given = mk()
        light2.traffic_light_cycle = given
        given.time_offset = off + 2
        one_list = [TrafficLightCycleElement(c, d) for c, d in zip(cols, durs)]
        c1, c2 = TrafficLightCycle(one_list, time_offset=off), TrafficLightCycle(one_list, time_offset=off)
        c1.cycle_elements = [TrafficLightCycleElement(c, d) for c, d in zip(cols[::-1], durs[::-1])] + [TrafficLightCycleElement(cols[0], 1)]
        exp_c1 = expanded[::-1] + [cols[0]]
        for t in ts:
            for lab, obj, e in (("light-given-an-equal-cycle-that-is-edited-later", light2, expanded[(t - off - 2) % T]),
                                ("cycle-sharing-its-list-with-a-reassigned-cycle", c2, expanded[(t - off) % T]), ("reassigned-cycle", c1, exp_c1[(t - off) % (T + 1)])):
                res.evals += 1; res.transitions += 1
                got = obj.get_state_at_time_step(t)
                if got != e:
                    res.violation(f"C17|n={len(durs)}|route:{lab}|wrong-state", f"{case0} t={t}: got {got} expected {e}", dict(case0, t=t))
                    break
    except Exception as e:
        res.violation(f"C17|n={len(durs)}|route|raises:{type(e).__name__}", repr(e), dict(case0))
    # (f) cycles and lights that have been OPERANDS of read-only operations before (and between) the queries: ==, !=, membership in a list, hash / set
    #     membership, str / repr, against an equal cycle, a cycle with the same offset and the same number of elements in another order (rotated,
    #     reversed, sorted by colour name), a cycle with another offset, and a non-cycle.  Every operand keeps the definition it was constructed with.
    try:
        import warnings as _w
        def mkc(cs, ds, o=off):
            return TrafficLightCycle([TrafficLightCycleElement(c, d) for c, d in zip(cs, ds)], time_offset=o)
        pairs_ = list(zip(cols, durs))
        orders = {"rotated": pairs_[1:] + pairs_[:1], "reversed": pairs_[::-1], "sorted-by-colour-name": sorted(pairs_, key=lambda p: (p[0].value, p[1])),
                  "sorted-descending": sorted(pairs_, key=lambda p: (p[0].value, p[1]), reverse=True)}
        subjects = []
        for oname, prs in orders.items():
            a, b = mk(), mkc([p[0] for p in prs], [p[1] for p in prs])
            la, lb = TrafficLight(20, np.array([0.0, 0.0]), mk()), TrafficLight(20, np.array([0.0, 0.0]), mkc([p[0] for p in prs], [p[1] for p in prs]))
            primed = mk(); primed.get_state_at_time_step(off + 1)
            with _w.catch_warnings():
                _w.simplefilter("ignore")
                for x, y in ((a, b), (la, lb), (primed, b)):
                    _ = (x == y, x != y, y == x, x in [y], y in [x, y], hash(x), hash(y), len({x, y}), str(x), repr(y), x == mk() if not isinstance(x, TrafficLight) else None,
                         x == 5, x == mkc(cols, durs, off + 1) if not isinstance(x, TrafficLight) else None)
            expb = [c for c, d in prs for _ in range(d)]
            subjects += [(f"compared-with-{oname}-cycle", a, expanded), (f"{oname}-cycle-after-comparison", b, expb), (f"light-compared-with-light-of-{oname}-cycle", la, expanded),
                         (f"light-of-{oname}-cycle-after-comparison", lb, expb), (f"queried-then-compared-with-{oname}-cycle", primed, expanded)]
        for t in ts:
            for lab, obj, ex in subjects:
                res.evals += 1; res.transitions += 1
                got = obj.get_state_at_time_step(t)
                if got != ex[(t - off) % T]:
                    res.violation(f"C17|n={len(durs)}|route:{lab}|wrong-state", f"{case0} t={t}: got {got} expected {ex[(t - off) % T]}", dict(case0, t=t))
                    subjects = [s_ for s_ in subjects if s_[0] != lab]
                    break
    except Exception as e:
        res.violation(f"C17|n={len(durs)}|route:comparisons|raises:{type(e).__name__}", repr(e), dict(case0))
    # the statement quantifies over every cycle: the 'active' flag (constructor argument and public setter, on the cycle and on the light)
    # is not part of the cycle definition and must not change the reported state
    try:
        inactive = TrafficLightCycle([TrafficLightCycleElement(c, d) for c, d in zip(cols, durs)], time_offset=off, active=False)
        toggled = mk(); toggled.get_state_at_time_step(off); toggled.active = False
        back_on = mk(); back_on.active = False; back_on.get_state_at_time_step(off); back_on.active = True
        light_off = TrafficLight(8, np.array([0.0, 0.0]), mk(), active=False)
        for t in ts:
            exp = expanded[(t - off) % T]
            for lab, obj in (("constructed-inactive", inactive), ("set-inactive", toggled), ("set-active-again", back_on), ("inactive-light", light_off)):
                res.evals += 1; res.transitions += 1
                got = obj.get_state_at_time_step(t)
                if got != exp:
                    res.violation(f"C17|n={len(durs)}|active-flag:{lab}|wrong-state", f"{case0} t={t}: got {got} expected {exp}", dict(case0, t=t))
                    break
    except Exception as e:
        res.violation(f"C17|n={len(durs)}|active-flag|raises:{type(e).__name__}", repr(e), dict(case0))

def _check_case(durs, cols, off, res, light_too=True):
    from commonroad.scenario.traffic_light import TrafficLightCycle, TrafficLightCycleElement, TrafficLight
    import numpy as np
    T = sum(durs)
    expanded = [c for c, d in zip(cols, durs) for _ in range(d)]
    bounds = set()
    acc = 0
    for d in durs:
        bounds.add(acc); bounds.add(acc + d - 1); acc += d
    ts = list(range(-2 * T - 3, 3 * T + 6 + off))

    def mk():
        return TrafficLightCycle([TrafficLightCycleElement(c, d) for c, d in zip(cols, durs)], time_offset=off)

    shared_up, shared_down = mk(), mk()
    light = TrafficLight(7, np.array([0.0, 0.0]), mk())
    nontriv = len(set(cols)) > 1
    case0 = {"durs": list(durs), "cols": [c.name for c in cols], "offset": off}
    for order, cyc in (("asc", shared_up), ("desc", shared_down)):
        seq = ts if order == "asc" else ts[::-1]
        for t in seq:
            exp = expanded[(t - off) % T]
            res.evals += 1
            res.transitions += 1
            try:
                got = cyc.get_state_at_time_step(t)
            except Exception as e:  # noqa
                res.violation(f"C17|n={len(durs)}|t-class:{_tclass(t, off, T, bounds)}|raises:{type(e).__name__}",
                              f"{case0} t={t}: {e!r}", dict(case0, t=t))
                continue
            if got != exp:
                res.violation(f"C17|n={len(durs)}|t-class:{_tclass(t, off, T, bounds)}|wrong-state",
                              f"{case0} t={t} order={order}: got {got} expected {exp}", dict(case0, t=t))
            res.outcomes[got.name if hasattr(got, "name") else str(got)] += 1
    for t in ts:
        exp = expanded[(t - off) % T]
        res.evals += 2
        res.transitions += 2
        try:
            fresh = mk().get_state_at_time_step(t)
            viaLight = light.get_state_at_time_step(t)
        except Exception as e:
            res.violation(f"C17|n={len(durs)}|t-class:{_tclass(t, off, T, bounds)}|raises:{type(e).__name__}",
                          f"{case0} t={t}: {e!r}", dict(case0, t=t))
            continue
        if fresh != exp:
            res.violation(f"C17|n={len(durs)}|t-class:{_tclass(t, off, T, bounds)}|wrong-state",
                          f"{case0} t={t} fresh: got {fresh} expected {exp}", dict(case0, t=t))
        if viaLight != exp:
            res.violation(f"C17|n={len(durs)}|t-class:{_tclass(t, off, T, bounds)}|light-disagrees-with-cycle",
                          f"{case0} t={t}: TrafficLight gives {viaLight}, expected {exp}", dict(case0, t=t))
        # periodicity
        try:
            if mk().get_state_at_time_step(t + T) != fresh:
                res.violation(f"C17|n={len(durs)}|not-periodic", f"{case0} t={t}", dict(case0, t=t))
        except Exception:
            pass
    # The further routes below (a)-(g) are run for every cycle with up to three elements; four-element cycles (thorough tier) get the construction,
    # light, periodicity and cycle-replacement checks only (the routes do not depend on the number of elements beyond what n <= 3 exercises).
    if len(durs) <= 3:
        _routes(durs, cols, off, res, case0, ts, T, expanded, mk)
    # history part of "TrafficLight agrees with its cycle": the light was queried at every t above; now its cycle is
    # replaced through the public setter (reversed colours, other offset) and every t is queried again
    cols2, durs2, off2 = list(cols)[::-1], list(durs)[::-1], off + 1
    expanded2 = [c for c, d in zip(cols2, durs2) for _ in range(d)]
    try:
        light.traffic_light_cycle = TrafficLightCycle([TrafficLightCycleElement(c, d) for c, d in zip(cols2, durs2)],
                                                      time_offset=off2)
        for t in ts:
            res.evals += 1; res.transitions += 1
            got = light.get_state_at_time_step(t)
            if got != expanded2[(t - off2) % T] or got != light.traffic_light_cycle.get_state_at_time_step(t):
                res.violation(f"C17|n={len(durs)}|light-disagrees-with-cycle-after-cycle-replaced",
                              f"{case0} t={t}: light gives {got}, its new cycle {expanded2[(t - off2) % T]}", dict(case0, t=t))
                break
    except Exception as e:
        res.violation(f"C17|n={len(durs)}|cycle-replace|raises:{type(e).__name__}", repr(e), dict(case0))
    res.states += 1
    if nontriv:
        res.nontrivial += len(ts)
    return case0


def run_unit(unit, tier):
    sp = _space(tier)
    res = Result()
    n, durs = unit["n"], unit["durs"]
    for cols in itertools.product(sp["cols"][n], repeat=n):
        for off in sp["offs"]:
            c = _check_case(durs, cols, off, res)
            res.sample(c, cap=2)
    return res


def replay(case):
    from commonroad.scenario.traffic_light import TrafficLightState as S
    res = Result()
    _check_case(case["durs"], [S[c] for c in case["cols"]], case["offset"], res)
    return [(s, d) for s, d, _ in res.violations]


def canaries():
    from commonroad.scenario import traffic_light as tl
    import numpy as np

    @contextlib.contextmanager
    def le():
        orig = tl.TrafficLightCycle.get_state_at_time_step

        def bad(self, time_step):
            m = ((time_step - self.time_offset) % (self.cycle_init_timesteps[-1] - self.time_offset)) + self.time_offset
            return self.cycle_elements[np.argmax(m <= self.cycle_init_timesteps) - 1].state
        tl.TrafficLightCycle.get_state_at_time_step = bad
        try:
            yield
        finally:
            tl.TrafficLightCycle.get_state_at_time_step = orig

    @contextlib.contextmanager
    def fmod():
        orig = tl.TrafficLightCycle.get_state_at_time_step

        def bad(self, time_step):
            import math
            m = int(math.fmod(time_step - self.time_offset, self.cycle_init_timesteps[-1] - self.time_offset)) + self.time_offset
            return self.cycle_elements[np.argmax(m < self.cycle_init_timesteps) - 1].state
        tl.TrafficLightCycle.get_state_at_time_step = bad
        try:
            yield
        finally:
            tl.TrafficLightCycle.get_state_at_time_step = orig
    return [("argmax-le", le), ("truncating-mod-for-negative-t", fmod)]
